// cargo test --offline --test C08_empty_generic_demo
//
// C08: "for every slice, the empty one included, each of the two decoders reads
// the other encoder's output". Before the fix (commit recorded in
// known_findings.json) the generic (serde) encoding of an EMPTY vector --
// `[0x05, 0x00]`, the empty generic array, because a serde-driven encoder has no
// element from which to pick a typed-array header -- was rejected by the bulk
// decoders ("not a typed array"): `Message::decode_typed_slice`,
// `decode_complex_slice` and the `with_typed_slice` / `with_typed_slice_ref`
// server routes, so `call_typed_beve(path, &Vec::<f64>::new())` against a bulk
// route failed with ParseError while every non-empty vector worked.

#![cfg(not(target_arch = "wasm32"))]

use repe::server::Router;
use repe::{Client, Message, Server};

#[test]
fn bulk_decoders_read_the_generic_empty_vector() {
    let m = Message::builder().body_beve(&Vec::<f64>::new()).unwrap().build();
    assert_eq!(m.body, [0x05, 0x00]);
    assert_eq!(m.decode_typed_slice::<f64>().expect("bulk decoder, generic empty f64"), Vec::<f64>::new());
    let m = Message::builder().body_beve(&Vec::<u8>::new()).unwrap().build();
    assert_eq!(m.decode_typed_slice::<u8>().expect("bulk decoder, generic empty u8"), Vec::<u8>::new());
    let m = Message::builder().body_beve(&Vec::<beve::Complex<f32>>::new()).unwrap().build();
    assert!(m.decode_complex_slice::<f32>().expect("complex bulk decoder, generic empty").is_empty());
    // the other direction always worked
    let b = Message::builder().body_typed_slice::<f64>(&[]).build();
    assert_eq!(b.beve_body::<Vec<f64>>().unwrap(), Vec::<f64>::new());
}

#[test]
fn bulk_routes_accept_an_empty_vector_from_the_generic_client() {
    let router = Router::new()
        .with_typed_slice::<f64, f64, _>("/copy", |xs| Ok(xs))
        .with_typed_slice_ref::<f64, f64, _>("/ref", |xs| Ok(xs.to_vec()));
    let server = Server::new(router);
    let listener = server.listen("127.0.0.1:0").expect("bind");
    let addr = listener.local_addr().expect("addr").to_string();
    std::thread::spawn(move || server.serve(listener));
    let client = Client::connect(&addr).expect("connect");
    let empty: Vec<f64> = Vec::new();
    for path in ["/copy", "/ref"] {
        let out: Vec<f64> = client.call_typed_beve(path, &empty).unwrap_or_else(|e| panic!("generic client, empty vector -> {path}: {e:?}"));
        assert!(out.is_empty());
        let out: Vec<f64> = client.call_typed_beve(path, &vec![1.5f64]).unwrap();
        assert_eq!(out, vec![1.5]);
    }
}
