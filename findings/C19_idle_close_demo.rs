// Native demonstration for finding C19-C (drop into tests/ of repe-rs):
//   cargo test --offline --test C19_idle_close_demo
//
// A node accepts a connection, answers one call, then closes the connection
// while the client is idle. The fleet's cached client is now dead: its reader
// thread saw EOF and shut the socket down, so the next write fails with EPIPE
// (io::ErrorKind::BrokenPipe). Property C19 requires that such a transport
// failure never leaves the node wedged: a later attempt or call must reconnect
// and succeed once the node is reachable again (it is: the listener keeps
// accepting).
use repe::{Fleet, FleetOptions, NodeConfig, RetryPolicy};
use std::io::{Read, Write};
use std::net::TcpListener;
use std::sync::atomic::{AtomicUsize, Ordering};
use std::sync::Arc;
use std::time::Duration;

fn read_frame(s: &mut std::net::TcpStream) -> Option<(Vec<u8>, Vec<u8>)> {
    let mut h = [0u8; 48];
    s.read_exact(&mut h).ok()?;
    let q = u64::from_le_bytes(h[24..32].try_into().unwrap()) as usize;
    let b = u64::from_le_bytes(h[32..40].try_into().unwrap()) as usize;
    let mut rest = vec![0u8; q + b];
    s.read_exact(&mut rest).ok()?;
    Some((h.to_vec(), rest[..q].to_vec()))
}

fn reply(s: &mut std::net::TcpStream, req_header: &[u8], query: &[u8]) {
    let body = b"1";
    let mut h = req_header.to_vec();
    h[0..8].copy_from_slice(&((48 + query.len() + body.len()) as u64).to_le_bytes());
    h[32..40].copy_from_slice(&(body.len() as u64).to_le_bytes());
    h[42..44].copy_from_slice(&2u16.to_le_bytes()); // JSON
    h[44..48].copy_from_slice(&0u32.to_le_bytes());
    s.write_all(&h).unwrap();
    s.write_all(query).unwrap();
    s.write_all(body).unwrap();
    s.flush().unwrap();
}

#[test]
fn node_that_closed_an_idle_connection_is_not_wedged() {
    let listener = TcpListener::bind("127.0.0.1:0").unwrap();
    let port = listener.local_addr().unwrap().port();
    let accepted = Arc::new(AtomicUsize::new(0));
    let acc = accepted.clone();
    std::thread::spawn(move || {
        for conn in listener.incoming() {
            let mut s = match conn { Ok(s) => s, Err(_) => break };
            let n = acc.fetch_add(1, Ordering::SeqCst);
            // every connection: answer exactly one request ...
            if let Some((h, q)) = read_frame(&mut s) {
                reply(&mut s, &h, &q);
            }
            if n == 0 {
                // ... and the first connection is then closed while the client is idle
                drop(s);
            } else {
                // later connections stay healthy
                std::thread::spawn(move || {
                    while let Some((h, q)) = read_frame(&mut s) {
                        reply(&mut s, &h, &q);
                    }
                });
            }
        }
    });

    let mut options = FleetOptions::default();
    options.retry_policy = RetryPolicy { max_attempts: 3, delay: Duration::from_millis(10) };
    let fleet = Fleet::with_options(
        vec![NodeConfig::new("127.0.0.1", port).unwrap().with_name("n").unwrap().with_timeout(Duration::from_secs(2)).unwrap()],
        options,
    )
    .unwrap();

    let first = fleet.call_json("n", "/x", None).unwrap();
    assert!(first.error.is_none(), "first call must succeed: {:?}", first.error);
    // let the client's reader thread observe the close
    std::thread::sleep(Duration::from_millis(300));

    // The node is reachable (the listener accepts). With up to 3 attempts per
    // call, and certainly after several calls, the fleet must recover.
    let mut last = None;
    for _ in 0..5 {
        let r = fleet.call_json("n", "/x", None).unwrap();
        if r.error.is_none() {
            return; // recovered
        }
        last = r.error;
        std::thread::sleep(Duration::from_millis(50));
    }
    panic!(
        "node wedged: 5 calls x 3 attempts all failed although the node accepts connections ({} accepted); last error: {:?}",
        accepted.load(Ordering::SeqCst),
        last
    );
}
