#!/bin/sh
# usage: prof.sh <full harness> <timeout-s> <slot>   -> /tmp/prof_<slot>.log + summary
h=$1; t=${2:-600}; s=${3:-0}
cd /repo && timeout $t env REPE_VERIF_KANI=${VERIF_KANI_DIR:-/verif/kani} CARGO_NET_OFFLINE=true cargo kani --lib -Z stubbing -Z unstable-options --features websocket,value-stream --target-dir /verif/.cache/kani-target/probe$s --exact --no-assertion-reach-checks $PROF_EXTRA --harness $h > /tmp/prof_$s.log 2>&1
echo "=== $h rc=$?" > /tmp/prof_$s.sum
grep -E "Runtime Symex|Runtime Solver|Generated|VERIFICATION|Verification Time|size of program" /tmp/prof_$s.log | head -8 >> /tmp/prof_$s.sum
grep -E "Unwinding" /tmp/prof_$s.log | awk '{print $2,$3}' | sort | uniq -c | sort -rn | head -8 | cut -c1-200 >> /tmp/prof_$s.sum
grep -B2 -A3 "Status: FAILURE" /tmp/prof_$s.log | grep -E "Description|Location" | head -10 >> /tmp/prof_$s.sum
