#!/usr/bin/env python3
"""Driver for the solver-based checks of repe-rs (see /verif/DESIGN.md).

    check.py <Cxx> [--tier quick|thorough] [--only <substr>] [--jobs N]
    check.py --replay <path>
    check.py --setup
    check.py --list

Every check is a set of `#[kani::proof]` harnesses (in /verif/kani/<module>.rs,
compiled *inside* /repo's crate through the cfg(kani) hooks) that Kani/CBMC
decides over the code compiled from /repo's current working tree.  This driver

  * reads the harness table from the `//@ key: value` annotation blocks in the
    harness sources (single source of truth),
  * runs ONE `cargo kani` for the property/tier (parallel harnesses, JSON export),
  * classifies every harness: pass / fail / inconclusive (timeout, OOM, compile
    error, unsatisfied cover, unwinding assertion),
  * on an unexpected failure obtains Kani's concrete counterexample, replays it
    natively against the real crate (`cargo kani playback`) and only then prints
    `VIOLATION property=<id> replay=<path>` (exit 1),
  * applies /verif/known_findings.json (never written here),
  * writes /verif/evidence/<id>.json.

Exit status: 0 held within bounds; 1 violation; 2 inconclusive (machinery or
resource problem, never reported as success).
"""
import argparse
import hashlib
import json
import os
import re
import resource
import shutil
import subprocess
import sys
import time

HERE = os.path.dirname(os.path.abspath(__file__))
VERIF = os.path.dirname(HERE)
REPO = os.environ.get("VERIF_REPO", "/repo")
KANI_DIR = os.environ.get("VERIF_KANI_DIR", os.path.join(VERIF, "kani"))  # override only for harness development
CACHE = os.path.join(VERIF, ".cache")
# VERIF_EVID / VERIF_REPO let the seeded-regression runner point the same checks at a
# scratch worktree without touching /repo or the committed evidence files.
EVID = os.environ.get("VERIF_EVID", os.path.join(VERIF, "evidence"))
REPO_TAG = "" if REPO == "/repo" else "-" + hashlib.sha256(REPO.encode()).hexdigest()[:8]
FEATURES = "websocket,value-stream"
KNOWN = os.path.join(VERIF, "known_findings.json")

TRUSTED_BASE = [
    "Kani 0.68.0 (MIR -> goto-program translation, its models of intrinsics and of the Rust allocator)",
    "CBMC 6.11.0 symbolic execution and bit-precise encoding; CaDiCaL SAT solver (no second back end available: --solver z3|cvc5 abort in this image)",
    "rustc nightly-2026-08-21 front end used by Kani (dev profile: overflow checks and debug assertions on)",
    "the stubs listed per harness (environment contracts: clock, condvar, allocator, formatting, hash keys, channel FIFO)",
]


# --------------------------------------------------------------------------
# harness table
# --------------------------------------------------------------------------
def parse_table(kani_dir=KANI_DIR):
    """Parse `//@ key: value` blocks. A block is a maximal run of consecutive
    `//@` lines; the harness name is its `name:` key or the first `fn <ident>(`
    within the following 8 lines."""
    table = []
    for fn in sorted(os.listdir(kani_dir)):
        if not fn.endswith(".rs"):
            continue
        module = fn[:-3]
        lines = open(os.path.join(kani_dir, fn)).read().split("\n")
        i = 0
        while i < len(lines):
            if lines[i].lstrip().startswith("//@"):
                block = {}
                last = None
                while i < len(lines) and lines[i].lstrip().startswith("//@"):
                    body = lines[i].lstrip()[3:].strip()
                    m = re.match(r"^([a-z_]+):\s*(.*)$", body)
                    if m:
                        last = m.group(1)
                        block[last] = m.group(2).strip()
                    elif last:
                        block[last] += " " + body
                    i += 1
                name = block.get("name")
                if not name:
                    for j in range(i, min(i + 8, len(lines))):
                        m = re.search(r"\bfn\s+([A-Za-z0-9_]+)\s*\(", lines[j])
                        if m:
                            name = m.group(1)
                            break
                if not name:
                    raise SystemExit(f"{fn}:{i}: annotation block without harness name")
                block["name"] = name
                block["module"] = module
                block["full"] = f"{module}::verif_kani::{name}"
                block["file"] = os.path.join(kani_dir, fn)
                block["props"] = [p.strip() for p in block.get("prop", "").split(",") if p.strip()]
                block.setdefault("tier", "quick")
                block.setdefault("expect", "pass")
                block.setdefault("stubs", "none")
                # Native playback runs WITHOUT stubs. It is only meaningful when the harness
                # has no stubs, or declares (replay: playback) that its oracle does not depend
                # on what the stubs return. Otherwise the solver trace is the evidence.
                block.setdefault("replay", "playback" if block["stubs"] == "none" else "solver-trace")
                table.append(block)
            else:
                i += 1
    names = [h["name"] for h in table]
    dup = {n for n in names if names.count(n) > 1}
    if dup:
        raise SystemExit(f"duplicate harness names: {dup}")
    return table


def select(table, prop, tier, only=None):
    out = []
    for h in table:
        if prop not in h["props"]:
            continue
        # tiers: quick < thorough; "experimental" harnesses (not yet known to finish within
        # their timeout on the unchanged tree) run only when asked for explicitly
        if tier == "quick" and h["tier"] != "quick":
            continue
        if tier == "thorough" and h["tier"] == "experimental":
            continue
        if tier == "experimental" and h["tier"] != "experimental":
            continue
        if only and only not in h["name"]:
            continue
        out.append(h)
    return out


# --------------------------------------------------------------------------
# running kani
# --------------------------------------------------------------------------
def base_env(kani_dir=KANI_DIR):
    env = dict(os.environ)
    env["REPE_VERIF_KANI"] = kani_dir
    env["CARGO_NET_OFFLINE"] = "true"
    env.pop("RUSTFLAGS", None)
    env.pop("CARGO_TARGET_DIR", None)
    return env


def limit_as(gb):
    def f():
        lim = int(gb * (1 << 30))
        resource.setrlimit(resource.RLIMIT_AS, (lim, lim))
        os.setsid()
    return f


def target_dir(prop):
    d = os.path.join(CACHE, "kani-target", prop + REPO_TAG)
    seed = os.path.join(CACHE, "kani-target", "_seed")
    if not os.path.isdir(d) and os.path.isdir(seed):
        os.makedirs(os.path.dirname(d), exist_ok=True)
        subprocess.run(["cp", "-a", seed, d], check=False)
    os.makedirs(d, exist_ok=True)
    return d


def kani_cmd(tdir, harnesses, jobs, timeout_s, json_out=None, extra=()):
    cmd = ["cargo", "kani", "--lib", "-Z", "stubbing", "-Z", "unstable-options",
           "--features", FEATURES, "--target-dir", tdir, "--exact", "--no-assertion-reach-checks"]
    for h in harnesses:
        cmd += ["--harness", h["full"]]
    cmd += ["--output-format", "terse", "--harness-timeout", f"{int(timeout_s)}s"]
    if jobs > 1:
        cmd += ["-j", str(jobs)]
    if json_out:
        cmd += ["--output-into-files", "--export-json", json_out]
    cmd += list(extra)
    return cmd


def run(cmd, env, mem_gb, wall_timeout, log_path):
    t0 = time.time()
    with open(log_path, "w") as log:
        log.write("$ " + " ".join(cmd) + "\n")
        log.flush()
        p = subprocess.Popen(cmd, cwd=REPO, env=env, stdout=log, stderr=subprocess.STDOUT,
                             preexec_fn=limit_as(mem_gb))
        try:
            rc = p.wait(timeout=wall_timeout)
        except subprocess.TimeoutExpired:
            try:
                os.killpg(p.pid, 9)
            except ProcessLookupError:
                pass
            p.wait()
            rc = -9
    return rc, time.time() - t0, open(log_path, errors="replace").read()


# --------------------------------------------------------------------------
# classification
# --------------------------------------------------------------------------
def is_unwind(c):
    return "unwinding assertion" in c.get("description", "") or c.get("category") == "unwind"


def is_unsupported(c):
    d = c.get("description") or ""
    f = c.get("function") or ""
    if "__rust_alloc_error_handler" in d:
        return False
    return "is not currently supported by Kani" in d or "try_statx" in f


def is_pointer_noise(c):
    # after an unsupported construct CBMC also reports dereference checks with no location
    loc = c.get("location", {}) or {}
    return (c.get("description") or "").startswith("dereference failure") and (loc.get("file") in (None, "", "unknown"))


def is_harness_internal(c):
    f = (c.get("location", {}) or {}).get("file") or ""
    d = c.get("description") or ""
    in_harness = os.path.realpath(f).startswith(os.path.realpath(VERIF) + os.sep) if f.startswith("/") else False
    builtin = d.startswith("attempt to ") or d.startswith("index out of bounds") or "slice index" in d or d.startswith("arithmetic overflow")
    return in_harness and builtin


def classify(h, res, stats, log_text):
    """-> dict(status=pass|fail|inconclusive, reason, failed=[...], covers=..)"""
    out = {"harness": h["name"], "full": h["full"], "expect": h["expect"]}
    if res is None:
        out.update(status="inconclusive", reason="no result for harness in Kani output (compile error, timeout or crash)")
        return out
    checks = res.get("checks", [])
    failed = [c for c in checks if c.get("status") == "Failure"]
    undet = [c for c in checks if c.get("status") in ("Undetermined", "Error", "SolverError")]
    covers = [c for c in checks if c.get("category") == "cover"]
    unsat_covers = [c for c in covers if c.get("status") != "Satisfied"]
    out["n_checks"] = len(checks)
    out["n_unreachable"] = sum(1 for c in checks if c.get("status") == "Unreachable")
    out["covers_total"] = len(covers)
    out["covers_satisfied"] = len(covers) - len(unsat_covers)
    out["seconds"] = res.get("duration_ms", 0) / 1000.0
    out["cbmc_stats"] = stats or {}
    out["failed"] = [
        {"description": c.get("description"), "function": c.get("function"),
         "file": c.get("location", {}).get("file"), "line": c.get("location", {}).get("line"),
         "category": c.get("category")} for c in failed]
    real_failed = [c for c in failed if not is_unwind(c)]
    # "X is not currently supported by Kani" (a syscall / foreign function the edited code
    # now reaches) says nothing about the property: inconclusive unless a genuine check
    # fails too. The allocation-error handler is the exception: reaching it IS the abort
    # that C02 forbids.
    unsupported = [c for c in real_failed if is_unsupported(c)]
    if unsupported and len(unsupported) == len([c for c in real_failed if not is_pointer_noise(c)]):
        out.update(status="inconclusive", reason="code reaches a construct Kani cannot model: " + "; ".join(
            (c.get("description") or "")[:120] for c in unsupported[:2]))
        return out
    # An arithmetic / bounds check that fails INSIDE a harness file is a defect of the
    # harness (e.g. an overflowing oracle expression), never evidence about /repo.
    harness_bugs = [c for c in real_failed if is_harness_internal(c)]
    if harness_bugs and len(harness_bugs) == len(real_failed):
        out.update(status="inconclusive", reason="harness defect: " + "; ".join(
            f"{c.get('description')} @ {c.get('location', {}).get('file')}:{c.get('location', {}).get('line')}" for c in harness_bugs[:3]))
        return out
    if real_failed:
        out.update(status="fail", reason="%d failed check(s)" % len(real_failed))
        return out
    if failed:
        out.update(status="inconclusive", reason="unwinding assertion failed: bound too small for the current code (reported, not truncated)")
        return out
    if res.get("status") != "Success":
        out.update(status="inconclusive", reason=f"Kani status {res.get('status')} with 0 failed checks (timeout / out of memory / solver error)")
        return out
    if undet:
        out.update(status="inconclusive", reason="%d undetermined checks" % len(undet))
        return out
    if unsat_covers:
        out.update(status="inconclusive",
                   reason="vacuity guard: cover not satisfied: " + "; ".join(c.get("description", "") for c in unsat_covers))
        return out
    out.update(status="pass", reason="UNSAT within bounds; all covers satisfied")
    return out


# --------------------------------------------------------------------------
# known findings
# --------------------------------------------------------------------------
def load_known():
    if not os.path.exists(KNOWN):
        return []
    return json.load(open(KNOWN)).get("findings", [])


def match_known(prop, cl):
    """A failing harness is covered by a `known` entry only if EVERY failed check
    matches that entry's (harness role, check pattern)."""
    for k in load_known():
        if k.get("status") != "known" or k.get("property") != prop:
            continue
        if not re.fullmatch(k.get("harness", ".*"), cl["harness"]):
            continue
        pats = k.get("checks", [])
        ok = True
        for f in cl.get("failed", []):
            if is_unwind(f):
                continue
            s = f"{f.get('file')}:{f.get('function')}:{f.get('description')}"
            if not any(re.search(p, s) for p in pats):
                ok = False
        if ok and cl.get("failed"):
            return k
    return None


# --------------------------------------------------------------------------
# replay
# --------------------------------------------------------------------------
def extract_playback_tests(text):
    tests = []
    seen = set()
    for m in re.finditer(r"```\n(.*?)```", text, re.S):
        src = m.group(1)
        if "kani::concrete_playback_run" in src and "#[test]" in src:
            # drop the generated doc comment: multi-line check descriptions break it
            src = src[src.index("#[test]"):]
            m = re.search(r"fn (kani_concrete_playback_\w+)", src)
            if m and m.group(1) in seen:
                continue
            if m:
                seen.add(m.group(1))
            tests.append(src)
    return tests


def get_counterexample(prop, h, jobs_env, mem_gb, timeout_s):
    tdir = target_dir(prop)
    # trace generation is slower than the plain decision: allow 3x
    cmd = kani_cmd(tdir, [h], 1, timeout_s * 3,
                   extra=["-Z", "concrete-playback", "--concrete-playback=print"])
    log = os.path.join(EVID, "logs", f"{prop}-{h['name']}-cex.log")
    rc, wall, text = run(cmd, jobs_env, max(mem_gb, 28.0), timeout_s * 3 + 600, log)
    return extract_playback_tests(text), text


def native_playback(prop, h, tests, profile="dev"):
    """Append the generated unit tests to a scratch copy of the harness file and
    run them natively (real allocator, real clock, no stubs) against /repo."""
    pdir = os.path.join(CACHE, "playback", prop + REPO_TAG)
    kdir = os.path.join(pdir, "kani")
    shutil.rmtree(pdir, ignore_errors=True)
    shutil.copytree(KANI_DIR, kdir)
    with open(os.path.join(kdir, h["module"] + ".rs"), "a") as f:
        for t in tests:
            f.write("\n" + t + "\n")
    env = base_env(kdir)
    env["CARGO_TARGET_DIR"] = os.path.join(CACHE, "playback", "target")
    env["RUST_BACKTRACE"] = "0"
    cmd = ["cargo", "kani", "playback", "-Z", "concrete-playback", "--lib", "--features", FEATURES]
    if profile == "release":
        cmd += ["--release"]
    cmd += ["--", "kani_concrete_playback_" + h["name"], "--test-threads", "1"]
    log = os.path.join(EVID, "logs", f"{prop}-{h['name']}-playback-{profile}.log")
    rc, wall, text = run(cmd, env, 48, 1800, log)
    shutil.rmtree(pdir, ignore_errors=True)
    m = re.search(r"test result: (\w+)\. (\d+) passed; (\d+) failed", text)
    aborted = bool(re.search(r"\(signal: \d+|SIGABRT|SIGSEGV|memory allocation of \d+ bytes failed", text))
    if m and int(m.group(3)) > 0:
        why = re.findall(r"panicked at [^\n]*\n[^\n]*", text)
        return "reproduced", (why[0] if why else "test failed")
    if aborted:
        why = re.findall(r"memory allocation of \d+ bytes failed|signal: \d+[^\n]*", text)
        return "reproduced", "process aborted: " + (why[0] if why else "signal")
    if m and m.group(1) == "ok" and int(m.group(2)) > 0:
        return "not-reproduced", "native run of the concrete values passed"
    return "error", "could not build/run the playback test (see log %s)" % log


def replay_file(path):
    d = json.load(open(path))
    table = {h["name"]: h for h in parse_table()}
    h = table.get(d["harness"])
    if not h:
        print(f"replay: harness {d['harness']} no longer exists")
        return 2
    if not d.get("playback_tests"):
        print("replay: no concrete playback tests recorded (solver trace only):")
        print(json.dumps(d.get("failed"), indent=1))
        return 2
    verdict, why = native_playback(d["property"], h, d["playback_tests"])
    print(f"replay: {verdict}: {why}")
    if verdict == "reproduced":
        print(f"VIOLATION property={d['property']} replay={path}")
        return 1
    return 0 if verdict == "not-reproduced" else 2


# --------------------------------------------------------------------------
# main check
# --------------------------------------------------------------------------
def check(prop, tier, only, jobs, seed):
    global EVID
    if tier == "experimental":
        # never overwrite the registered evidence with an exploratory run
        EVID = os.path.join(CACHE, "experimental-evidence")
    t0 = time.time()
    os.makedirs(os.path.join(EVID, "logs"), exist_ok=True)
    os.makedirs(os.path.join(EVID, "replays"), exist_ok=True)
    table = parse_table()
    hs = select(table, prop, tier, only)
    if not hs:
        print(f"no harnesses for {prop} tier={tier}")
        return 2
    # VERIF_SEED only permutes scheduling order; the decision has no randomness.
    hs.sort(key=lambda h: hashlib.sha256(f"{seed}:{h['name']}".encode()).hexdigest())
    default_to = 600 if tier == "quick" else 2400

    timeout_s = max(int(h.get("timeout", default_to)) for h in hs)
    jobs = max(1, min(jobs, len(hs)))
    if any(h.get("mem") == "high" for h in hs):
        # harnesses annotated `mem: high` need 12-16 GB of CBMC address space each
        jobs = min(jobs, 3)
    mem_gb = float(os.environ.get("VERIF_MEM_GB", min(28.0, 56.0 / jobs)))
    tdir = target_dir(prop)
    json_out = os.path.join(EVID, "logs", f"{prop}-{tier}-kani.json")
    if os.path.exists(json_out):
        os.remove(json_out)
    env = base_env()
    cmd = kani_cmd(tdir, hs, jobs, timeout_s, json_out)
    log = os.path.join(EVID, "logs", f"{prop}-{tier}.log")
    wall_cap = timeout_s * (len(hs) // jobs + 1) + 900
    rc, wall, text = run(cmd, env, mem_gb, wall_cap, log)

    results, stats = {}, {}
    compile_error = None
    if os.path.exists(json_out):
        try:
            d = json.load(open(json_out))
            for r in d.get("verification_results", {}).get("results", []):
                results[r["harness_id"]] = r
            for c in d.get("cbmc", []):
                stats[c["harness_id"]] = c.get("cbmc_stats", {})
        except Exception as e:  # truncated JSON
            compile_error = f"unreadable Kani JSON export: {e}"
    if not results:
        m = re.findall(r"^error(?:\[E\d+\])?:.*$", text, re.M)
        compile_error = compile_error or ("; ".join(m[:5]) if m else f"cargo kani produced no results (rc={rc})")

    cls = [classify(h, results.get(h["full"]), stats.get(h["full"]), text) for h in hs]
    by_name = {h["name"]: h for h in hs}

    violations, known_hits, inconclusive = [], [], []
    for cl in cls:
        h = by_name[cl["harness"]]
        if h["expect"] == "fail":
            # vacuity witness: must FAIL, and only at its own deliberate assertion
            if cl["status"] == "fail" and all("verif-witness" in (f["description"] or "") for f in cl["failed"]):
                cl["status"] = "pass"
                cl["reason"] = "witness twin reported FAILED as required (assertion is reachable)"
            elif cl["status"] == "fail":
                cl["status"] = "fail"
            else:
                cl["status"] = "inconclusive"
                cl["reason"] = "vacuity witness did NOT fail: " + cl.get("reason", "")
        if cl["status"] == "inconclusive":
            inconclusive.append(cl)
        elif cl["status"] == "fail":
            k = match_known(prop, cl)
            if k:
                known_hits.append((k, cl))
                cl["known_finding"] = k.get("id")
                continue
            violations.append(cl)

    # replay each unexpected failure before reporting it
    reported = []
    for cl in violations:
        h = by_name[cl["harness"]]
        rp = os.path.join(EVID, "replays", f"{prop}-{h['name']}.json")
        rec = {"property": prop, "harness": h["name"], "full": h["full"], "tier": tier,
               "failed": cl["failed"], "replay_mode": h["replay"], "stubs": h["stubs"],
               "harness_file": h["file"], "repo_head": git_head()}
        tests, cex_text = get_counterexample(prop, h, env, mem_gb, timeout_s)
        rec["playback_tests"] = tests
        if h["replay"] == "solver-trace":
            rec["native"] = {"verdict": "not-attempted",
                             "why": "harness stubs an environment (clock / condvar interference / allocator) that a native run cannot be forced into; the solver counterexample over the compiled code is the evidence"}
            verdict = "reproduced"
        elif not tests:
            rec["native"] = {"verdict": "error", "why": "Kani produced no concrete playback test"}
            verdict = "error"
        else:
            verdict, why = native_playback(prop, h, tests)
            rec["native"] = {"verdict": verdict, "why": why, "profile": "dev"}
        json.dump(rec, open(rp, "w"), indent=1)
        cl["replay"] = rp
        cl["native"] = rec["native"]
        if verdict == "reproduced":
            reported.append(cl)
        else:
            cl["status"] = "inconclusive"
            cl["reason"] = f"solver counterexample did not reproduce natively ({rec['native']['why']}): harness/stub suspect, not reported as a violation"
            inconclusive.append(cl)

    for k, cl in known_hits:
        print(f"KNOWN-FINDING: property={prop} {k.get('text')} [harness {cl['harness']}]")
    for cl in reported:
        print(f"VIOLATION property={prop} replay={cl['replay']}")
        for f in cl["failed"][:6]:
            print(f"  failed: {f['description']} @ {f['file']}:{f['line']} in {f['function']}")
    for cl in inconclusive:
        print(f"INCONCLUSIVE harness={cl['harness']}: {cl['reason']}")
    if compile_error:
        print(f"INCONCLUSIVE: {compile_error}")

    wall_total = time.time() - t0
    write_evidence(prop, tier, seed, hs, cls, cmd, wall_total, len(reported), compile_error, jobs, mem_gb, timeout_s)
    npass = sum(1 for c in cls if c["status"] == "pass")
    print(f"{prop} [{tier}]: {npass}/{len(cls)} harness obligations discharged, "
          f"{len(reported)} violation(s), {len(known_hits)} known finding(s), {len(inconclusive)} inconclusive; {wall_total:.0f}s")
    if reported:
        return 1
    if inconclusive or compile_error:
        return 2
    return 0


def git_head():
    try:
        return subprocess.run(["git", "-C", REPO, "rev-parse", "HEAD"], capture_output=True, text=True).stdout.strip()
    except Exception:
        return ""


def write_evidence(prop, tier, seed, hs, cls, cmd, wall, nviol, compile_error, jobs, mem_gb, timeout_s):
    by = {h["name"]: h for h in hs}
    samples = []
    funcs, stubs, assumptions = set(), set(), set()
    tot_checks = tot_vcc = tot_vcc_rem = 0
    solver_s = symex_s = 0.0
    covers = 0
    for cl in cls:
        h = by[cl["harness"]]
        st = cl.get("cbmc_stats", {}) or {}
        tot_checks += cl.get("n_checks", 0)
        tot_vcc += int(st.get("vccs_generated", 0) or 0)
        tot_vcc_rem += int(st.get("vccs_remaining", 0) or 0)
        solver_s += float(st.get("runtime_solver_s", 0) or 0) + float(st.get("runtime_decision_procedure_s", 0) or 0)
        symex_s += float(st.get("runtime_symex_s", 0) or 0)
        covers += cl.get("covers_satisfied", 0)
        for f in re.split(r"[;,]\s*", h.get("funcs", "")):
            if f.strip():
                funcs.add(f.strip())
        if h["stubs"] != "none":
            for s in re.split(r"[;,]\s*", h["stubs"]):
                stubs.add(s.strip())
        if h.get("assumes"):
            assumptions.add(f"{h['name']}: {h['assumes']}")
        samples.append({
            "harness": h["full"], "clause": h.get("clause", ""), "tier": h["tier"],
            "functions_encoded": h.get("funcs", ""), "symbolic": h.get("symbolic", ""),
            "bounds": h.get("bounds", ""), "oracle": h.get("oracle", ""), "stubs": h["stubs"],
            "outside_bounds": h.get("out", ""),
            "expect": h["expect"], "status": cl["status"], "reason": cl.get("reason", ""),
            "checks": cl.get("n_checks", 0), "unreachable_checks": cl.get("n_unreachable", 0),
            "covers_satisfied": f"{cl.get('covers_satisfied', 0)}/{cl.get('covers_total', 0)}",
            "verification_s": cl.get("seconds"), "cbmc": st,
            "failed": cl.get("failed", []), "replay": cl.get("replay"), "native": cl.get("native"),
            "known_finding": cl.get("known_finding"),
        })
    npass = sum(1 for c in cls if c["status"] == "pass")
    ev = {
        "property_id": prop, "tier": "thorough" if tier == "experimental" else tier, "seed": seed, "level": "other",
        "coverage": {
            "explanation": "Bounded symbolic execution of the implementation compiled from /repo's working tree (Kani -> CBMC -> CaDiCaL). "
                           "Each obligation is one #[kani::proof] harness: inputs are kani::any() symbolic values, the property clause is an assertion, "
                           "and the solver returned UNSAT (no violating value exists within the stated unwind/size bounds) for every obligation counted as discharged. "
                           "Unwinding assertions are on; timeouts, OOM, compile errors and unsatisfied cover! vacuity guards are reported as inconclusive, never as success. "
                           "Nothing outside the per-harness bounds is claimed.",
            "obligations": len(cls), "discharged": npass,
            "checker_cmd": "cd /repo && REPE_VERIF_KANI=/verif/kani " + " ".join(cmd),
            "trusted_base": TRUSTED_BASE + sorted("stub: " + s for s in stubs),
            "functions_encoded": sorted(funcs),
            "queries": {"cbmc_checks_decided": tot_checks, "vccs_generated": tot_vcc, "vccs_after_simplification": tot_vcc_rem,
                        "cover_witnesses_satisfied": covers},
            "solver_time_s": round(solver_s, 3), "symex_time_s": round(symex_s, 3),
            "resources": {"parallel_harnesses": jobs, "address_space_limit_gb_per_process": mem_gb, "per_harness_timeout_s": timeout_s},
            "samples": samples,
            "exhaustive": False,
            "repo_head": git_head(),
            "compile_error": compile_error,
        },
        "assumptions": sorted(assumptions) + [
            "dev-profile arithmetic (overflow checks on): any reachable overflow is reported; absence of overflow within bounds makes dev and release values coincide",
            "every bound listed under coverage.samples[*].bounds; values outside are not covered",
        ],
        "wall_s": round(wall, 2),
        "violations": nviol,
    }
    os.makedirs(EVID, exist_ok=True)
    tmp = os.path.join(EVID, f".{prop}.json.tmp")
    json.dump(ev, open(tmp, "w"), indent=1)
    os.replace(tmp, os.path.join(EVID, f"{prop}.json"))


def setup():
    """Build the dependency graph once (codegen only) into the seed target dir."""
    os.makedirs(os.path.join(EVID, "logs"), exist_ok=True)
    seed = os.path.join(CACHE, "kani-target", "_seed")
    os.makedirs(seed, exist_ok=True)
    cmd = ["cargo", "kani", "--lib", "-Z", "stubbing", "--features", FEATURES, "--target-dir", seed,
           "--only-codegen", "--harness", "header::verif_kani::c01_header_layout", "--exact"]
    rc, wall, text = run(cmd, base_env(), 48, 3600, os.path.join(EVID, "logs", "setup.log"))
    print(f"setup: cargo kani --only-codegen rc={rc} in {wall:.0f}s")
    if rc != 0:
        print(text[-3000:])
    return 0 if rc == 0 else 2


def main():
    ap = argparse.ArgumentParser()
    ap.add_argument("prop", nargs="?")
    ap.add_argument("--tier", default=os.environ.get("VERIF_TIER", "quick"), choices=["quick", "thorough", "experimental"])
    ap.add_argument("--only")
    ap.add_argument("--jobs", type=int, default=int(os.environ.get("VERIF_JOBS", "0")))
    ap.add_argument("--replay")
    ap.add_argument("--setup", action="store_true")
    ap.add_argument("--list", action="store_true")
    a = ap.parse_args()
    if a.setup:
        sys.exit(setup())
    if a.replay:
        sys.exit(replay_file(a.replay))
    if a.list:
        for h in parse_table():
            print(",".join(h["props"]), h["tier"], h["expect"], h["full"])
        sys.exit(0)
    if not a.prop:
        ap.error("property id required")
    seed = int(os.environ.get("VERIF_SEED", "0") or 0)
    jobs = a.jobs or (4 if a.tier == "quick" else 5)
    sys.exit(check(a.prop, a.tier, a.only, jobs, seed))


if __name__ == "__main__":
    main()
