#!/usr/bin/env python3
"""Confirm a seeded regression in a scratch worktree and file it under
/verif/seeded/<seed-id>/.

    validate_seed.py <seed-id> <property> <worktree> <patch.diff> <demo.rs> <notes.md> [--features F]

Steps (all in the scratch worktree, never in /repo):
  1. worktree is reset to /repo's HEAD; patch applies cleanly
  2. with the patch: crate builds, the existing suite passes unedited
  3. with the patch: the demonstration test FAILS
  4. without the patch: the demonstration test PASSES
Only if 1-4 hold is the seed stored (patch.diff, demo.rs, notes.md, meta.json).
"""
import json
import os
import re
import shutil
import subprocess
import sys
import time

VERIF = os.path.dirname(os.path.dirname(os.path.abspath(__file__)))


def sh(cmd, cwd, timeout=3600):
    env = dict(os.environ, CARGO_NET_OFFLINE="true")
    p = subprocess.run(cmd, cwd=cwd, shell=True, capture_output=True, text=True, timeout=timeout, env=env)
    return p.returncode, p.stdout + p.stderr


def main():
    a = sys.argv[1:]
    feats = ""
    if "--features" in a:
        i = a.index("--features")
        feats = a[i + 1]
        del a[i:i + 2]
    seed, prop, wt, patch, demo, notes = a
    ran = []
    head = subprocess.run(["git", "-C", "/repo", "rev-parse", "HEAD"], capture_output=True, text=True).stdout.strip()
    sh(f"git checkout -q --detach {head} && git checkout -- . && git clean -fdq tests/", wt)
    rc, out = sh(f"git apply --check {patch}", wt)
    if rc != 0:
        print(f"{seed}: patch does not apply to {head[:7]}: {out[-400:]}")
        return 1
    demo_name = "seed_demo_" + re.sub(r"\W", "_", seed)
    fflag = f"--features {feats}" if feats else ""
    # 4. baseline: demo passes on clean HEAD
    shutil.copy(demo, os.path.join(wt, "tests", demo_name + ".rs"))
    cmd_demo = f"cargo test --offline {fflag} --test {demo_name}"
    rc_clean, out_clean = sh(cmd_demo, wt)
    ran.append({"cmd": cmd_demo + "   (clean HEAD)", "rc": rc_clean})
    os.remove(os.path.join(wt, "tests", demo_name + ".rs"))
    # 2. patched: suite passes
    sh(f"git apply {patch}", wt)
    cmd_suite = "cargo test --workspace --no-fail-fast --offline"
    rc_suite, out_suite = sh(cmd_suite, wt)
    ran.append({"cmd": cmd_suite + "   (patched)", "rc": rc_suite,
                "summary": re.findall(r"test result: .*", out_suite)[:40]})
    rc_feat, out_feat = sh("cargo build --offline --features websocket,value-stream", wt)
    ran.append({"cmd": "cargo build --offline --features websocket,value-stream   (patched)", "rc": rc_feat})
    # 3. patched: demo fails
    shutil.copy(demo, os.path.join(wt, "tests", demo_name + ".rs"))
    rc_mut, out_mut = sh(cmd_demo, wt)
    ran.append({"cmd": cmd_demo + "   (patched)", "rc": rc_mut})
    sh("git checkout -- . && git clean -fdq tests/", wt)
    ok = rc_clean == 0 and rc_suite == 0 and rc_feat == 0 and rc_mut != 0 and "test result: FAILED" in out_mut
    print(f"{seed}: demo clean rc={rc_clean}, suite patched rc={rc_suite}, features build rc={rc_feat}, demo patched rc={rc_mut} -> {'CONFIRMED' if ok else 'REJECTED'}")
    if not ok:
        print(out_clean[-600:] if rc_clean else "")
        print(out_suite[-600:] if rc_suite else "")
        return 1
    d = os.path.join(VERIF, "seeded", seed)
    os.makedirs(d, exist_ok=True)
    shutil.copy(patch, os.path.join(d, "patch.diff"))
    shutil.copy(demo, os.path.join(d, "demo.rs"))
    shutil.copy(notes, os.path.join(d, "notes.md"))
    meta = {
        "seed": seed, "property": prop, "repo_head": head,
        "needs_to_manifest": first_para(open(notes).read(), "manifest"),
        "confirmed_at": time.strftime("%Y-%m-%dT%H:%M:%S"),
        "ran": ran,
        "demo_failure_excerpt": "\n".join(re.findall(r"panicked at[^\n]*\n[^\n]*", out_mut)[:2]),
        "detected_by": None,
    }
    json.dump(meta, open(os.path.join(d, "meta.json"), "w"), indent=1)
    return 0


def first_para(text, key):
    for para in re.split(r"\n\s*\n", text):
        if key in para.lower():
            return para.strip()[:1200]
    return text.strip()[:600]


if __name__ == "__main__":
    sys.exit(main())
