#!/usr/bin/env python3
"""Regenerates /verif/MANIFEST.json from the table below plus the harness
annotations (so the per-property notes and the harness table cannot drift)."""
import json
import os
import sys

sys.path.insert(0, os.path.dirname(os.path.abspath(__file__)))
from check import parse_table  # noqa: E402

VERIF = os.path.dirname(os.path.dirname(os.path.abspath(__file__)))

TECH = "bounded symbolic execution of the compiled Rust (Kani 0.68 -> CBMC 6.11 -> CaDiCaL SAT): kani::any() inputs, assertions decided UNSAT within stated unwind/size bounds, counterexamples replayed natively"

LEVEL_TEXT = ("bounded, solver-decided: for every harness the SAT solver shows that no value of the symbolic inputs within the stated "
              "bounds violates the asserted clause on the code compiled from /repo's working tree; nothing is sampled and nothing outside the bounds is claimed. ")

# property -> (claimed?, level text suffix, level_note, design_ref) or reason for not applicable
CLAIMED = {
    "C01": dict(
        text="Header layout and round trip over all field values at full width against an independent spec table; every synchronous emission route (to_vec, write_to, write_message, write_message_streaming, into_wire_bytes) pairwise through that oracle at small constant payload sizes and every body-capacity relation, also into a short-writing sink; builder; parse-back; TCP-vs-WebSocket response framing parity.",
        note="Bounds: |query| <= 2, |body| <= 3 per route instance (sizes are per-instance constants, contents and all 11 header fields symbolic). Outside: async writers (write_message_async, async_server::write_view_response), payloads larger than the instances, interop fixtures, bytes from running servers.",
        ref="DESIGN.md §4 C01"),
    "C02": dict(
        text="Header::decode, Message/MessageView::from_slice(_exact) total on fully symbolic buffers (<= 56 bytes, every length incl. wrapping 64-bit sums) with an exact accept/reject oracle; read_message on hostile streams (symbolic contents, truncation, short read, I/O error) and with never-allocatable declared sizes under an allocator-failure stub.",
        note="Bounds: buffers/streams <= 56 bytes; stream-reader payload sizes are per-instance constants (quick: concrete EOF/short-read shapes; thorough: symbolic EOF + one symbolic short read); declared sizes <= 8 bytes or >= 2^62. Outside: async readers; read_message_into with sizes in [2^62,2^63) (it grows through realloc, which Kani does not let a stub fail; only its capacity-overflow class >= 2^63 is decided); callers in the connection loops. Dev-profile arithmetic: any reachable overflow is reported.",
        ref="DESIGN.md §4 C02"),
    "C03": dict(
        text="The shared dispatch core (route, route_request_view, dispatch_view, dispatch, error-response builders, echo rule): response/notify discipline, exactly-once handler invocation, error-code mapping, and equality of the three compositions the transports build (TCP borrowed, WebSocket inline, WebSocket off-reader) for symbolic headers and handler outcomes.",
        note="PARTIAL: the four connection loops (threads/tokio/sockets), response ordering, pipelines and the concrete built-in handler kinds with real JSON/BEVE bodies are outside; a change confined to a loop is not detected. Query bytes are per-instance constants (UTF-8 validation of symbolic bytes is out of reach); lookup stubbed to '/a registered' (lookup is C07); error text stubbed.",
        ref="DESIGN.md §4 C03"),
    "C04": dict(
        text="Only the schedule-independent safety clause: every client funnels each result through validate_response(expected_id, resp) on its return path; for a fully symbolic response header, Ok implies id == expected (and version, ec), so no call can return another call's response under any interleaving or reply order.",
        note="PARTIAL (one clause): delivery of the matching response, unknown-id/duplicate/notify routing, batch alignment and id distinctness live in threads/tasks/sockets and are outside; a mutation in a response loop is not detected.",
        ref="DESIGN.md §4 C04"),
    "C07": dict(
        text="Mount prefix/boundary logic on symbolic paths and prefixes (router match vs handler strip agree; /ab not under /a), Router::get precedence on a concrete table with a symbolic path selector, middleware applied exactly once regardless of registration order with execution mode preserved, struct segments = RFC 6901 tokens for symbolic paths incl. the 16-segment stack/heap boundary, owned-vs-borrowed agreement for handlers up to the point a serde parser would run.",
        note="PARTIAL: strings <= 5 bytes over a 3-5 letter alphabet; routing table concrete (hashing a symbolic key through SipHash/hashbrown is out of reach); serde_json / beve-serde body parsing (accepted formats of JSON/typed/registry/struct handlers) outside; derive macro outside.",
        ref="DESIGN.md §4 C07"),
    "C08": dict(
        text="Bulk path only: bulk encode -> bulk decode is bit-exact for every element bit pattern; streaming writer == buffered builder; aligned form lands the payload on an element boundary of the frame for every query residue 0..8 and survives into_wire_bytes; wrong body format / wrong element type rejected.",
        note="PARTIAL: identity with the generic serde encoding and cross-decoding through serde are NOT decided (beve's serde walk exhausts memory under CBMC) - that is the first sentence of the property; 2 elements per instance; half floats, complex, client/server routes over sockets outside.",
        ref="DESIGN.md §4 C08"),
    "C09": dict(
        text="Sequential composition ChunkSink -> channel (FIFO contract) -> Session::pull -> chunk_response: concatenation equals the payload, exactly one final chunk, non-final chunks full-size, empty payload = one empty final chunk, for symbolic payload bytes at every boundary residue (instances).",
        note="PARTIAL: uncompressed only (zstd is a C library); std sync_channel replaced by its FIFO contract with the producer run to completion first (depth/speed independence is the Kahn-determinism argument, trusted); NextHandler's done/release logic (beve + HashMap), the blocking/async/WebSocket pullers and typed/value producers outside; producer-failure path thorough-only.",
        ref="DESIGN.md §4 C09"),
    "C10": dict(
        text="Trailer clauses only: TrailerHold forwards exactly all but the last N bytes for symbolic streams across arbitrary write splits, returns exactly the last N bytes as trailer, and rejects a stream shorter than N without forwarding anything.",
        note="NARROW: the commit protocol (temp file, last_seen, flush, fsync, rename, TempFile drop), crash points, the real filesystem and the async pullers are outside - std::fs::File/Client values cannot be stepped under Kani; a change to write_file/TempFile is not detected.",
        ref="DESIGN.md §4 C10"),
    "C11": dict(
        text="One arbitrary operation (record_ack, record_sent, advance_to_file, cancel, request_resume, wait_for_credit with expired deadline, the documented producer step) from an arbitrary state satisfying acked <= sent, all values full 64-bit: an inductive step that covers histories of any length.",
        note="Representation invariant acked <= sent is the only assumption on pre-states (every such state is reachable); chunk <= 2^48; replay ring empty or one chunk (ring semantics are C13). Stubs: symbolic monotone clock, notify counter.",
        ref="DESIGN.md §4 C11"),
    "C12": dict(
        text="By reduction to sequential obligations decided on the real functions: O1 every enabling transition (ack, cancel, advance, resume) issues notify_all and sends/pushes never enable; O2 the real wait_for_credit / wait_for_reconnect loops against a wait_timeout stub that havocs the protected state (arbitrary interference, spurious wake-ups) and a symbolic monotone clock never sleep on a true predicate, sleep exactly until the deadline, and report faithfully; O3 by construction (Mutex<Inner>).",
        note="The implication O1&O2&O3 => no lost wake-up under any interleaving is the standard monitor argument and, with std Mutex/Condvar semantics, is the TRUSTED base; real thread schedules are not run. Bounds: <= 2 sleeps per wait call, clock in whole seconds, strictly increasing; 1 s tolerance on durations whose deadline std computes with Instant+Duration (Kani leaves those nanoseconds nondeterministic).",
        ref="DESIGN.md §4 C12"),
    "C13": dict(
        text="Ring built by <= 3 pushes with symbolic offsets/logical lengths/wire lengths/capacity compared to a reference eviction model (most recent retained, oldest first, wire-byte bound, byte-identical, contiguous); resume acceptance predicate exact, refused resume changes nothing, accepted resume installs the peer, is delivered once, and replays a gapless byte-identical tail; advance empties ring and discards pending resume.",
        note="Bounds: histories of <= 3 pushes (quick: 2 for resume), wire bodies <= 2 bytes; offsets assumed not to overflow u64 (documented producer contract).",
        ref="DESIGN.md §4 C13"),
    "C14": dict(
        text="Pointer layer: parse_pointer rejects exactly the RFC 6901-malformed pointers (with the not-found class) and yields the unescaped tokens; canonical_key (borrowed fast path) and canonical_pointer(parse_pointer) (slow path) both equal an independent oracle; escape/unescape round trip; json_pointer::parse = RFC tokens; mounting strips exactly the prefix (shared with C07).",
        note="PARTIAL: strings <= 3 bytes over {/,~,0,1,a}; the JSON tree semantics (read-your-write, non-interference, root merge), the call/read/write decision over the std HashMap + serde_json, body decoding and linearizability are outside.",
        ref="DESIGN.md §4 C14"),
    "C17": dict(
        text="check_outbound exact over the full usize range; frame_outbound delivers at/below-limit and unlimited messages byte-for-byte unchanged and reports nothing; an oversized notify is dropped and reported once with exact size and limit; create_error_message yields a well-formed error reply.",
        note="PARTIAL: the oversized-RESPONSE replacement clause is outside (the replacement text is built with format!: the real formatter does not finish under CBMC and with it stubbed Kani reports spurious memory errors on that path; see DESIGN.md); async call sites (writer task, proxy, client pre-send) outside.",
        ref="DESIGN.md §4 C17"),
    "C19": dict(
        text="is_retryable_error in both fleets over all stable io::ErrorKinds and the non-I/O error variants: every kind a dead/refusing/silent node produces through the clients is retryable (so the cached client is invalidated), application/protocol errors never are.",
        note="PARTIAL: the retry loop itself (attempt bound, stop conditions, invalidate on the last attempt), ensure_connected, tag filtering and broadcast fan-out are outside (they need Client values backed by sockets / tokio); the environment contract D (which kinds a dead node produces) is an assumption validated once natively (findings/C19_idle_close_demo.rs).",
        ref="DESIGN.md §4 C19"),
}

NOT_APPLICABLE = {
    "C05": "entirely about concurrent socket writers, write timeouts and mid-write cancellation in threads/tokio tasks; there is no sequential kernel that a bounded symbolic execution of the compiled code (Kani does not model concurrency or sockets) could decide",
    "C06": "needs live sockets, reader threads/tasks and timers (fail_all_pending, pending guards racing responses); nothing constructible or steppable under Kani",
    "C15": "tokio tasks, select!, cancellation tokens, real WebSocket streams and unwinding through async frames; no sequential fragment decides the property",
    "C16": "semaphore permits, spawn_blocking and catch_unwind on runtime threads; not executable symbolically",
    "C18": "every clause runs through three std HashMaps (hashbrown control bytes) under one mutex: merged symbolic operations on them did not finish under CBMC (design probes: 2-3 symbolic ops > 10-15 min), and a per-operation split over concrete states would be enumeration of concrete runs rather than a solver decision; concurrency clauses need threads",
}

PENDING = "check under construction in this build session (see DESIGN.md §4); not yet claimed"


def main():
    table = parse_table()
    props = [json.loads(l)["id"] for l in open(os.path.join(VERIF, "properties.jsonl"))]
    checks = []
    na = []
    for p in props:
        hs = [h for h in table if p in h["props"]]
        if p in CLAIMED and hs:
            c = CLAIMED[p]
            nq = sum(1 for h in hs if h["tier"] == "quick")
            checks.append({
                "property_id": p,
                "quick_cmd": f"python3 driver/check.py {p} --tier quick",
                "thorough_cmd": f"python3 driver/check.py {p} --tier thorough",
                "evidence_file": f"/verif/evidence/{p}.json",
                "replay_cmd_template": "python3 driver/check.py --replay {path}",
                "engine": "kani-cbmc",
                "level_claimed": {"category": "other", "text": LEVEL_TEXT + c["text"], "design_ref": c["ref"]},
                "level_note": c["note"] + f" Harnesses: {nq} quick / {len(hs)} thorough.",
                "technique": TECH,
            })
        else:
            na.append({"property_id": p, "reason": NOT_APPLICABLE.get(p, PENDING)})
    m = {
        "version": 1,
        "setup_cmd": "python3 driver/check.py --setup",
        "hooks": {
            "guard": "cfg(kani)",
            "enable": "cargo kani sets --cfg kani; checks run `cargo kani --lib -Z stubbing --features websocket,value-stream` in /repo with REPE_VERIF_KANI=/verif/kani, which makes each hooked module include /verif/kani/<module>.rs",
            "baseline_off_cmd": "cd /repo && cargo test --workspace --no-fail-fast --offline",
            "source_commits": ["698944b", "e0981ed"],
            "add_only": True,
        },
        "engines": [{
            "name": "kani-cbmc", "path": "/verif/driver/check.py",
            "serves_properties": [c["property_id"] for c in checks],
            "kind_free_text": "Kani 0.68.0 proof harnesses compiled inside the repe crate (cfg(kani) hooks), decided by CBMC 6.11.0 + CaDiCaL; Python driver classifies, replays counterexamples natively (cargo kani playback) and writes evidence",
        }],
        "checks": checks,
        "not_applicable": na,
        "notes": "All checks are the same technique (solver-based checking of the real compiled code). Exit 0 = UNSAT within bounds for every harness; 1 = VIOLATION (counterexample replayed natively first); 2 = inconclusive (timeout/OOM/compile error/vacuity guard), never reported as success. known_findings.json is read-only at run time.",
    }
    json.dump(m, open(os.path.join(VERIF, "MANIFEST.json"), "w"), indent=1)
    print(f"MANIFEST.json: {len(checks)} checks, {len(na)} not_applicable")


if __name__ == "__main__":
    main()
