#!/usr/bin/env python3
"""Regenerates /verif/MANIFEST.json from the table below plus the harness
annotations (so the per-property notes and the harness table cannot drift)."""
import json
import os
import sys

sys.path.insert(0, os.path.dirname(os.path.abspath(__file__)))
from check import parse_table  # noqa: E402

VERIF = os.path.dirname(os.path.dirname(os.path.abspath(__file__)))

TECH = "bounded symbolic execution of the compiled Rust (Kani 0.68 -> CBMC 6.11 -> CaDiCaL SAT): kani::any() inputs, assertions decided UNSAT within stated unwind/size bounds, counterexamples replayed natively"

LEVEL_TEXT = ("bounded, solver-decided: for every harness the SAT solver shows that no value of the symbolic inputs within the stated "
              "bounds violates the asserted clause on the code compiled from /repo's working tree; nothing is sampled and nothing outside the bounds is claimed. ")

# property -> (claimed?, level text suffix, level_note, design_ref) or reason for not applicable
CLAIMED = {
    "C01": dict(
        text="Header layout/round-trip over all field values at full width, every sync emission route pairwise at small constant payload sizes and all capacity relations.",
        note="Bounds: payload <= 3 bytes per route instance (sizes are per-instance constants, contents symbolic); async writer and interop fixtures outside. Trusted: Kani/CBMC/CaDiCaL.",
        ref="DESIGN.md §4 C01"),
    "C02": dict(
        text="Parsers and stream readers are total on symbolic hostile bytes with full-width length fields; allocator failure is modelled by a stub.",
        note="Bounds: buffers <= 56 bytes; stream-reader declared sizes <= 8 bytes or >= 2^62 (never allocatable); dev-profile arithmetic (any reachable overflow is reported). Async readers outside.",
        ref="DESIGN.md §4 C02"),
}

NOT_APPLICABLE = {
    "C05": "entirely about concurrent socket writers, write timeouts and mid-write cancellation in threads/tokio tasks; there is no sequential kernel that a bounded symbolic execution of the compiled code (Kani does not model concurrency or sockets) could decide",
    "C06": "needs live sockets, reader threads/tasks and timers (fail_all_pending, pending guards racing responses); nothing constructible or steppable under Kani",
    "C15": "tokio tasks, select!, cancellation tokens, real WebSocket streams and unwinding through async frames; no sequential fragment decides the property",
    "C16": "semaphore permits, spawn_blocking and catch_unwind on runtime threads; not executable symbolically",
}

PENDING = "check under construction in this build session (see DESIGN.md §4); not yet claimed"


def main():
    table = parse_table()
    props = [json.loads(l)["id"] for l in open(os.path.join(VERIF, "properties.jsonl"))]
    checks = []
    na = []
    for p in props:
        hs = [h for h in table if p in h["props"]]
        if p in CLAIMED and hs:
            c = CLAIMED[p]
            nq = sum(1 for h in hs if h["tier"] == "quick")
            checks.append({
                "property_id": p,
                "quick_cmd": f"python3 driver/check.py {p} --tier quick",
                "thorough_cmd": f"python3 driver/check.py {p} --tier thorough",
                "evidence_file": f"/verif/evidence/{p}.json",
                "replay_cmd_template": "python3 driver/check.py --replay {path}",
                "engine": "kani-cbmc",
                "level_claimed": {"category": "other", "text": LEVEL_TEXT + c["text"], "design_ref": c["ref"]},
                "level_note": c["note"] + f" Harnesses: {nq} quick / {len(hs)} thorough.",
                "technique": TECH,
            })
        else:
            na.append({"property_id": p, "reason": NOT_APPLICABLE.get(p, PENDING)})
    m = {
        "version": 1,
        "setup_cmd": "python3 driver/check.py --setup",
        "hooks": {
            "guard": "cfg(kani)",
            "enable": "cargo kani sets --cfg kani; checks run `cargo kani --lib -Z stubbing --features websocket,value-stream` in /repo with REPE_VERIF_KANI=/verif/kani, which makes each hooked module include /verif/kani/<module>.rs",
            "baseline_off_cmd": "cd /repo && cargo test --workspace --no-fail-fast --offline",
            "source_commits": ["698944b"],
            "add_only": True,
        },
        "engines": [{
            "name": "kani-cbmc", "path": "/verif/driver/check.py",
            "serves_properties": [c["property_id"] for c in checks],
            "kind_free_text": "Kani 0.68.0 proof harnesses compiled inside the repe crate (cfg(kani) hooks), decided by CBMC 6.11.0 + CaDiCaL; Python driver classifies, replays counterexamples natively (cargo kani playback) and writes evidence",
        }],
        "checks": checks,
        "not_applicable": na,
        "notes": "All checks are the same technique (solver-based checking of the real compiled code). Exit 0 = UNSAT within bounds for every harness; 1 = VIOLATION (counterexample replayed natively first); 2 = inconclusive (timeout/OOM/compile error/vacuity guard), never reported as success. known_findings.json is read-only at run time.",
    }
    json.dump(m, open(os.path.join(VERIF, "MANIFEST.json"), "w"), indent=1)
    print(f"MANIFEST.json: {len(checks)} checks, {len(na)} not_applicable")


if __name__ == "__main__":
    main()
