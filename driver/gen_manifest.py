#!/usr/bin/env python3
"""Regenerates /verif/MANIFEST.json from the table below plus the harness
annotations (so the per-property notes and the harness table cannot drift)."""
import json
import os
import sys

sys.path.insert(0, os.path.dirname(os.path.abspath(__file__)))
from check import parse_table  # noqa: E402

VERIF = os.path.dirname(os.path.dirname(os.path.abspath(__file__)))

TECH = "bounded symbolic execution of the compiled Rust (Kani 0.68 -> CBMC 6.11 -> CaDiCaL SAT): kani::any() inputs, assertions decided UNSAT within stated unwind/size bounds, counterexamples replayed natively"

LEVEL_TEXT = ("bounded, solver-decided: for every harness the SAT solver shows that no value of the symbolic inputs within the stated "
              "bounds violates the asserted clause on the code compiled from /repo's working tree; nothing is sampled and nothing outside the bounds is claimed. ")

# property -> (claimed?, level text suffix, level_note, design_ref) or reason for not applicable
CLAIMED = {
    "C01": dict(
        text="Header layout and round trip over all field values at full width against an independent spec table; every synchronous emission route (to_vec, write_to, write_message, write_message_streaming, into_wire_bytes) pairwise through that oracle at small constant payload sizes and every body-capacity relation, also into a short-writing sink; builder; parse-back; TCP-vs-WebSocket response framing parity; the async routes (write_message_async, async_server::write_view_response) driven by a two-line executor over tokio's in-memory AsyncWrite for Vec<u8>.",
        note="The typed-slice streaming writer vs. the buffered builder (2 f64 elements) is included through the C08 bulk harness registered under both properties. Bounds: per route instance |query| <= 2 and |body| <= 3 (quick) or up to 5 and 8 (thorough); sizes are per-instance constants, contents and all 11 header fields symbolic. Outside: payloads larger than the instances, async writers over real sockets (only the in-memory writer is driven), interop fixtures, bytes from running servers.",
        ref="DESIGN.md §4 C01"),
    "C02": dict(
        text="Header::decode, Message/MessageView::from_slice(_exact) total on fully symbolic buffers (<= 56 bytes, every length incl. wrapping 64-bit sums) with an exact accept/reject oracle; read_message on hostile streams (symbolic contents, truncation, short read, I/O error) and with never-allocatable declared sizes under an allocator-failure stub.",
        note="Bounds: buffers/streams <= 56 bytes; stream-reader payload sizes are per-instance constants (quick: concrete EOF/short-read shapes; thorough: symbolic EOF + one symbolic short read); declared sizes <= 8 bytes or >= 2^62. Outside: the async readers except read_message_into_async's capacity-overflow class (the others did not finish under CBMC); read_message_into with sizes in [2^62,2^63) (it grows through realloc, which Kani does not let a stub fail; only its capacity-overflow class >= 2^63 is decided); callers in the connection loops. Dev-profile arithmetic: any reachable overflow is reported.",
        ref="DESIGN.md §4 C02"),
    "C03": dict(
        text="The shared dispatch core (route, route_request_view, dispatch_view, dispatch, error-response builders, echo rule): response/notify discipline, exactly-once handler invocation, error-code mapping, and equality of the three compositions the transports build (TCP borrowed, WebSocket inline, WebSocket off-reader) for symbolic headers and handler outcomes.",
        note="PARTIAL: the four connection loops (threads/tokio/sockets), response ordering, pipelines and the concrete built-in handler kinds with real JSON/BEVE bodies are outside; a change confined to a loop is not detected. Queries are 0-2 symbolic bytes restricted to ASCII or >= 0xf8 (the domain on which the from_utf8 stub - an ASCII check - is exact; the real validator is out of reach); the handler outcome is a per-instance constant; lookup stubbed to '/a registered' (lookup is C07); error text stubbed.",
        ref="DESIGN.md §4 C03"),
    "C04": dict(
        text="Only the schedule-independent safety clause: every client funnels each result through validate_response(expected_id, resp) on its return path; for a fully symbolic response header, Ok implies id == expected (and version, ec), so no call can return another call's response under any interleaving or reply order. Plus two small schedule-independent facts of the blocking client: ids issued on one connection (through any clone) are pairwise distinct from any counter state including the 2^64 wrap (4 consecutive ids), and a non-empty batch always has at least one worker whatever the OS reports as parallelism.",
        note="PARTIAL: delivery of the matching response, unknown-id/duplicate/notify routing and the positional fill of batch results live in threads/tasks/sockets and are outside; a mutation in a response loop is not detected; AsyncClient / WebSocketClient values cannot be constructed under Kani, so their id counters are not exercised.",
        ref="DESIGN.md §4 C04"),
    "C07": dict(
        text="Mount prefix/boundary logic for registry and struct mounts on symbolic paths (router-side match and handler-side strip agree; /ab is not under /a; the remainder handed on is exactly the path minus the prefix); a forwarding middleware chain is transparent and runs exactly once per dispatch on every entry point with the execution mode preserved; the default borrowed dispatch path delegates faithfully (also behind the off-reader wrapper).",
        note="PARTIAL. Registered harnesses use per-instance constant mount prefixes with symbolic paths <= 5 bytes over {/,a,b}. NOT decided (harnesses exist but do not finish under CBMC and are kept in the unregistered 'experimental' tier): exact-route-over-mount precedence in Router::get (std HashMap), middleware re-wrapping on registration order, struct segments = RFC 6901 tokens and the 16-segment boundary (str::split/memchr/replace), owned-vs-borrowed agreement of the built-in JSON/typed/bulk handlers (serde / beve parsers are encoded even on rejected formats). Derive macro outside.",
        ref="DESIGN.md §4 C07"),
    "C08": dict(
        text="Bulk path only: bulk encode -> bulk decode is bit-exact for every element bit pattern; streaming writer == buffered builder; aligned form lands the payload on an element boundary of the frame for every query residue 0..8 and survives into_wire_bytes; wrong body format / wrong element type rejected; complex pairs (Complex<f32>) round trip and stream identically. Plus the empty slice across the two codecs (real serde encoder inside the model): the bulk decoders read the generic encoder's output for an empty vector (f64, u8, i32, Complex<f32>), and so does the borrowing bulk route's decoder (decode_typed_slice_ref_body / _param, f64 and u8) - this clause found genuine defect C08-D, repaired by e3e9105.",
        note="PARTIAL: identity with the generic serde encoding and cross-decoding through serde for NON-EMPTY slices are NOT decided (beve's serde walk over elements exhausts memory under CBMC) - that is the first sentence of the property; the empty-slice instances have no symbolic payload (a single point of the input space, decided by symbolic execution of the real encoder + decoder); the empty slice through the server routes is shown only natively (findings/C08_empty_generic_demo.rs); 2 elements per instance; half floats and client/server routes over sockets outside; the borrowing bulk route (TypedSliceRefHandler, borrow-vs-copy by buffer alignment) needs > 11 GB per harness and is only in the unregistered 'experimental' tier.",
        ref="DESIGN.md §4 C08"),
    "C09": dict(
        text="Sequential composition ChunkSink -> channel (FIFO contract) -> Session::pull -> chunk_response, also through the real producer engine produce() for a clean production, plus the Session protocol over symbolic producer message sequences (chunks then End / Fail / no marker): concatenation equals the payload, exactly one final chunk, non-final chunks full-size, empty payload = one empty final chunk, for symbolic payload bytes at every boundary residue (instances).",
        note="PARTIAL: uncompressed only (zstd is a C library); std sync_channel replaced by its FIFO contract with the producer run to completion first (depth/speed independence is the Kahn-determinism argument, trusted); NextHandler's done/release logic (beve + HashMap), the blocking/async/WebSocket pullers and typed/value producers outside; a failing body writer inside produce() is outside (dropping the io::Error there does not finish under CBMC) - producer failure is decided at the Session level.",
        ref="DESIGN.md §4 C09"),
    "C10": dict(
        text="Two sequential kernels: (1) TrailerHold forwards exactly all but the last N bytes for symbolic streams across arbitrary write splits, returns exactly the last N bytes as trailer, and rejects a stream shorter than N without forwarding anything; (2) the TempFile guard under filesystem stubs with a trace oracle: the temp file is either published by exactly one rename(temp -> destination) or removed (drop without commit, failed rename), and no other operation ever names the destination path.",
        note="NARROW: filesystem stubs: the destination is absent or a regular file as chosen, the temporary file a regular file of the same length while it exists; write_file's ordering (final chunk seen, fill ok, flush, fsync BEFORE commit), the verified / trailer-verified pullers around the guard, real crash points, the real filesystem and the async pullers are outside; a change confined to write_file or to a puller is not detected. (A commit-protocol harness with filesystem stubs was built and abandoned: Kani 0.68 hands back garbage for the return value of a stubbed function whose Result<_, RepeError> the caller drops immediately, producing spurious double-free reports; see DESIGN.md §2.)",
        ref="DESIGN.md §4 C10"),
    "C11": dict(
        text="One arbitrary operation (record_ack, record_sent, advance_to_file, cancel, request_resume, wait_for_credit with expired deadline, the documented producer step) from an arbitrary state satisfying acked <= sent, all values full 64-bit: an inductive step that covers histories of any length.",
        note="Representation invariant acked <= sent is the only assumption on pre-states (every such state is reachable); chunk <= 2^48; replay ring empty or one chunk (ring semantics are C13). Stubs: symbolic monotone clock, notify counter.",
        ref="DESIGN.md §4 C11"),
    "C12": dict(
        text="By reduction to sequential obligations decided on the real functions: O1 every enabling transition (ack, cancel, advance, resume) issues notify_all and sends/pushes never enable; O2 the real wait_for_credit / wait_for_reconnect loops against a wait_timeout stub that havocs the protected state (arbitrary interference, spurious wake-ups) and a symbolic monotone clock never sleep on a true predicate, sleep exactly until the deadline, and report faithfully; O3 by construction (Mutex<Inner>).",
        note="The implication O1&O2&O3 => no lost wake-up under any interleaving is the standard monitor argument and, with std Mutex/Condvar semantics, is the TRUSTED base; real thread schedules are not run. Bounds: <= 2 sleeps per wait call (3 in the thorough tier for the credit waiter), clock in whole seconds, strictly increasing; 1 s tolerance on durations whose deadline std computes with Instant+Duration (Kani leaves those nanoseconds nondeterministic).",
        ref="DESIGN.md §4 C12"),
    "C13": dict(
        text="Ring built by <= 3 pushes with symbolic offsets/logical lengths/wire lengths/capacity compared to a reference eviction model (most recent retained, oldest first, wire-byte bound, byte-identical, contiguous); resume acceptance predicate exact, refused resume changes nothing, accepted resume installs the peer, is delivered once, and replays a gapless byte-identical tail; advance empties ring and discards pending resume.",
        note="Bounds: ring histories of <= 3 pushes; resume on rings built by <= 2 pushes (the 3-push resume harness runs out of memory: experimental); wire bodies <= 2 bytes; offsets assumed not to overflow u64 (documented producer contract).",
        ref="DESIGN.md §4 C13"),
    "C14": dict(
        text="Only the mount clause: a registry mounted under a prefix receives exactly the paths at or below that prefix at a '/' boundary and strips exactly the prefix ('/' for the mount point itself); router-side matching and handler-side stripping agree, for symbolic paths.",
        note="NARROW. The pointer layer (parse_pointer, canonical_key fast path vs re-canonicalising path, escape/unescape round trip, json_pointer::parse) has harnesses over symbolic strings of 2-3 bytes, but str::split / memchr / replace on symbolic bytes did not finish under CBMC (> 40 min, > 13 GB), and even unescape_token alone on exactly 2 bytes / escape_token alone on 1 byte exhaust memory (15 GB / 37 GB: String growth from symbolic chars): they are kept in the unregistered 'experimental' tier and are NOT part of this claim. The JSON tree semantics, the call/read/write decision (std HashMap + serde_json), body decoding and linearizability are outside.",
        ref="DESIGN.md §4 C14"),
    "C17": dict(
        text="check_outbound exact over the full usize range; frame_outbound delivers at/below-limit and unlimited messages byte-for-byte unchanged and reports nothing; an oversized notify is dropped and reported once with exact size and limit; create_error_message yields a well-formed error reply.",
        note="PARTIAL: the oversized-RESPONSE replacement clause is outside (the replacement text is built with format!: the real formatter does not finish under CBMC and with it stubbed Kani reports spurious memory errors on that path; see DESIGN.md); async call sites (writer task, proxy, client pre-send) outside.",
        ref="DESIGN.md §4 C17"),
    "C19": dict(
        text="(1) the blocking Fleet's retry loop (both copies: call_message_with_retry, call_json_with_retry) with the real ensure_connected / invalidate_client / is_retryable_error, over a symbolic per-attempt outcome script (refused; closed / reset / silent until timeout with any transport kind; undecodable reply; application error; success), max_attempts symbolic in 1..=3 (1..=4 in the thorough tier), optionally a cached connection that died while idle: attempts <= max_attempts, a further attempt only after a transport failure, the result is the last attempt's reply or error, a failed connection is never reused, and no client stays cached after a transport failure. (2) is_retryable_error in both fleets over all stable io::ErrorKinds and the non-I/O error variants.",
        note="PARTIAL: the JSON retry loop is driven with params = Some(_) only (the param-less arm decodes the reply with serde_json and is outside); the node's sockets are an environment model (Client::connect and the per-call exchange are scripted stubs; environment contract D = which error kinds a dead node produces, validated once natively by findings/C19_idle_close_demo.rs); the AsyncFleet loop (tokio clients cannot be constructed under Kani) is covered only through its is_retryable_error; tag filtering and broadcast fan-out are outside; more than one node and more than 4 attempts are outside the bound.",
        ref="DESIGN.md §4 C19"),
}

NOT_APPLICABLE = {
    "C05": "entirely about concurrent socket writers, write timeouts and mid-write cancellation in threads/tokio tasks; there is no sequential kernel that a bounded symbolic execution of the compiled code (Kani does not model concurrency or sockets) could decide",
    "C06": "needs live sockets, reader threads/tasks and timers (fail_all_pending, pending guards racing responses); nothing constructible or steppable under Kani",
    "C15": "tokio tasks, select!, cancellation tokens, real WebSocket streams and unwinding through async frames; no sequential fragment decides the property",
    "C16": "semaphore permits, spawn_blocking and catch_unwind on runtime threads; not executable symbolically",
    "C18": "every clause runs through three std HashMaps (hashbrown control bytes) under one mutex: merged symbolic operations on them did not finish under CBMC (design probes: 2-3 symbolic ops > 10-15 min), and a per-operation split over concrete states would be enumeration of concrete runs rather than a solver decision; concurrency clauses need threads",
}

PENDING = "check under construction in this build session (see DESIGN.md §4); not yet claimed"


def main():
    table = parse_table()
    props = [json.loads(l)["id"] for l in open(os.path.join(VERIF, "properties.jsonl"))]
    checks = []
    na = []
    for p in props:
        hs = [h for h in table if p in h["props"]]
        if p in CLAIMED and hs:
            c = CLAIMED[p]
            nq = sum(1 for h in hs if h["tier"] == "quick")
            nt = sum(1 for h in hs if h["tier"] in ("quick", "thorough"))
            nx = sum(1 for h in hs if h["tier"] == "experimental")
            checks.append({
                "property_id": p,
                "quick_cmd": f"python3 driver/check.py {p} --tier quick",
                "thorough_cmd": f"python3 driver/check.py {p} --tier thorough",
                "evidence_file": f"/verif/evidence/{p}.json",
                "replay_cmd_template": "python3 driver/check.py --replay {path}",
                "engine": "kani-cbmc",
                "level_claimed": {"category": "other", "text": LEVEL_TEXT + c["text"], "design_ref": c["ref"]},
                "level_note": c["note"] + f" Harnesses: {nq} in the quick command, {nt} in the thorough command" + (f"; {nx} more exist but are experimental (not run by either command, not part of the claim)." if nx else "."),
                "technique": TECH,
            })
        else:
            na.append({"property_id": p, "reason": NOT_APPLICABLE.get(p, PENDING)})
    m = {
        "version": 1,
        "setup_cmd": "python3 driver/check.py --setup",
        "hooks": {
            "guard": "cfg(kani)",
            "enable": "cargo kani sets --cfg kani; checks run `cargo kani --lib -Z stubbing --features websocket,value-stream` in /repo with REPE_VERIF_KANI=/verif/kani, which makes each hooked module include /verif/kani/<module>.rs",
            "baseline_off_cmd": "cd /repo && cargo test --workspace --no-fail-fast --offline",
            "source_commits": ["698944b", "e0981ed", "ea75049"],
            "add_only": True,
        },
        "engines": [{
            "name": "kani-cbmc", "path": "/verif/driver/check.py",
            "serves_properties": [c["property_id"] for c in checks],
            "kind_free_text": "Kani 0.68.0 proof harnesses compiled inside the repe crate (cfg(kani) hooks), decided by CBMC 6.11.0 + CaDiCaL; Python driver classifies, replays counterexamples natively (cargo kani playback) and writes evidence",
        }],
        "checks": checks,
        "not_applicable": na,
        "notes": "All checks are the same technique (solver-based checking of the real compiled code). Exit 0 = UNSAT within bounds for every harness; 1 = VIOLATION (counterexample replayed natively first); 2 = inconclusive (timeout/OOM/compile error/vacuity guard), never reported as success. known_findings.json is read-only at run time.",
    }
    json.dump(m, open(os.path.join(VERIF, "MANIFEST.json"), "w"), indent=1)
    print(f"MANIFEST.json: {len(checks)} checks, {len(na)} not_applicable")


if __name__ == "__main__":
    main()
