use super::*;
use crate::verif_common::*;

// ===========================================================================
// C14: RFC 6901 pointer layer of the registry
// ===========================================================================
const PTR_ALPHABET: [u8; 5] = [b'/', b'~', b'0', b'1', b'a'];

/// Reference validity predicate (8-line byte loop, from RFC 6901 + the statement):
/// invalid iff non-empty without leading '/', or a '~' not followed by '0'/'1'.
fn ref_invalid(p: &[u8]) -> bool {
    if p.is_empty() {
        return false;
    }
    if p[0] != b'/' {
        return true;
    }
    let mut i = 0;
    while i < p.len() {
        if p[i] == b'~' && !(i + 1 < p.len() && (p[i + 1] == b'0' || p[i + 1] == b'1')) {
            return true;
        }
        i += 1;
    }
    false
}

/// Reference tokenizer: split on '/', then ~0 -> '~', ~1 -> '/'. Only called on
/// valid pointers. "/" and "" are the root (no tokens) in the registry dialect.
struct Toks {
    count: usize,
    lens: [usize; 4],
    bytes: [[u8; 4]; 4],
}
fn ref_tokens(p: &[u8]) -> Toks {
    let mut t = Toks { count: 0, lens: [0; 4], bytes: [[0; 4]; 4] };
    if p.is_empty() || (p.len() == 1 && p[0] == b'/') {
        return t;
    }
    t.count = 1;
    let mut i = 1;
    while i < p.len() {
        let c = p[i];
        let k = t.count - 1;
        if c == b'/' {
            t.count += 1;
        } else if c == b'~' {
            t.bytes[k][t.lens[k]] = if p[i + 1] == b'0' { b'~' } else { b'/' };
            t.lens[k] += 1;
            i += 1;
        } else {
            t.bytes[k][t.lens[k]] = c;
            t.lens[k] += 1;
        }
        i += 1;
    }
    t
}

//@ name: c14_parse_pointer_rfc6901_2
//@ prop: C14
//@ tier: experimental
//@ timeout: 3000
//@ clause: malformed pointers are rejected (with the not-found class of error) exactly when RFC 6901 says so; well-formed pointers parse into exactly the unescaped reference tokens
//@ funcs: registry::parse_pointer; registry::unescape_token; RegistryError::code
//@ symbolic: pointer of <= 2 bytes over {'/','~','0','1','a'}
//@ bounds: |pointer| <= 2; unwind 8
//@ oracle: byte-loop validity predicate and tokenizer written from RFC 6901
//@ stubs: none
fn parse_pointer_rfc6901<const N: usize>() {
    let p = SymStr::<N>::any(&PTR_ALPHABET);
    let invalid = ref_invalid(p.bytes());
    match parse_pointer(p.as_str()) {
        Err(e) => {
            assert!(invalid, "a well-formed pointer was rejected");
            assert!(matches!(e, RegistryError::InvalidPointer { .. }));
            assert!(e.code() == ErrorCode::MethodNotFound, "malformed pointer not in the not-found class");
            std::mem::forget(e);
        }
        Ok(tokens) => {
            assert!(!invalid, "a malformed pointer was accepted");
            let want = ref_tokens(p.bytes());
            assert!(tokens.len() == want.count, "token count differs from RFC 6901");
            let mut i = 0;
            while i < want.count {
                assert!(bytes_eq(tokens[i].as_bytes(), &want.bytes[i][..want.lens[i]]), "token differs from the unescaped RFC 6901 token");
                i += 1;
            }
            kani::cover!(want.count == 1 && want.lens[0] == 1 && p.len == N);
            kani::cover!(want.count == N);
            std::mem::forget(tokens);
        }
    }
    kani::cover!(invalid && p.len == N && p.buf[0] == b'/');
}

#[kani::proof]
#[kani::unwind(8)]
fn c14_parse_pointer_rfc6901_2() {
    parse_pointer_rfc6901::<2>();
}

//@ prop: C14
//@ tier: experimental
//@ clause: as c14_parse_pointer_rfc6901_2 for pointers of up to 3 bytes (all escape shapes that fit: ~0 ~1 ~a ~ /~ a~1 /~0 /~1)
//@ funcs: registry::parse_pointer; registry::unescape_token; RegistryError::code
//@ symbolic: pointer of <= 3 bytes over {'/','~','0','1','a'}
//@ bounds: |pointer| <= 3; unwind 8
//@ oracle: byte-loop validity predicate and tokenizer written from RFC 6901
//@ stubs: alloc::fmt::format -> stub (unused)
//@ timeout: 3000
#[kani::proof]
#[kani::unwind(8)]
fn c14_parse_pointer_rfc6901_3() {
    parse_pointer_rfc6901::<3>();
}

//@ name: c14_canonical_key_fast_path_2
//@ prop: C14
//@ tier: experimental
//@ timeout: 3000
//@ clause: the borrowed fast path for function lookup yields the same escape-normalised key as the re-canonicalising path, and errors exactly on malformed pointers: a callable is addressed only at exactly its escape-normalised pointer
//@ funcs: registry::canonical_key
//@ symbolic: pointer of <= 2 bytes over {'/','~','0','1','a'}
//@ bounds: |pointer| <= 2; unwind 8
//@ oracle: Err iff RFC-invalid; Ok(k) => k is the pointer itself ("/" for the root forms "" and "/"): a well-formed pointer is its own canonical form
//@ stubs: none
fn canonical_key_fast_path<const N: usize>() {
    let p = SymStr::<N>::any(&PTR_ALPHABET);
    let invalid = ref_invalid(p.bytes());
    match canonical_key(p.as_str()) {
        Err(e) => {
            assert!(invalid, "a well-formed pointer was rejected");
            assert!(e.code() == ErrorCode::MethodNotFound);
            std::mem::forget(e);
        }
        Ok(k) => {
            assert!(!invalid, "a malformed pointer was accepted as a lookup key");
            if p.len == 0 {
                assert!(k.as_ref() == "/");
            } else {
                assert!(bytes_eq(k.as_bytes(), p.bytes()), "lookup key is not the escape-normalised pointer");
            }
            kani::cover!(matches!(k, Cow::Owned(_)) || N < 3);
            kani::cover!(matches!(k, Cow::Borrowed(_)) && p.len == N);
            std::mem::forget(k);
        }
    }
}

#[kani::proof]
#[kani::unwind(8)]
fn c14_canonical_key_fast_path_2() {
    canonical_key_fast_path::<2>();
}

//@ prop: C14
//@ tier: experimental
//@ clause: as c14_canonical_key_fast_path_2 for pointers of up to 3 bytes (escaped tokens /~0 /~1 reach the re-canonicalising branch)
//@ funcs: registry::canonical_key; registry::parse_pointer; registry::canonical_pointer
//@ symbolic: pointer of <= 3 bytes over {'/','~','0','1','a'}
//@ bounds: |pointer| <= 3; unwind 8
//@ oracle: Err iff RFC-invalid; Ok(k) => k is the pointer itself ("/" for the root forms)
//@ stubs: none
//@ timeout: 3000
#[kani::proof]
#[kani::unwind(8)]
fn c14_canonical_key_fast_path_3() {
    canonical_key_fast_path::<3>();
}

//@ prop: C14
//@ tier: experimental
//@ clause: the re-canonicalising path (parse then re-escape) maps every well-formed pointer to itself, so it agrees with the borrowed fast path
//@ funcs: registry::canonical_pointer; registry::escape_token; registry::parse_pointer
//@ symbolic: pointer of <= 3 bytes over {'/','~','0','1','a'}
//@ bounds: |pointer| <= 3; unwind 8
//@ oracle: canonical_pointer(parse_pointer(p)) == p for well-formed non-root p; "/" for the root forms
//@ stubs: none
//@ timeout: 3000
#[kani::proof]
#[kani::unwind(8)]
fn c14_canonical_pointer_slow_path() {
    let p = SymStr::<3>::any(&PTR_ALPHABET);
    kani::assume(!ref_invalid(p.bytes()));
    let toks = parse_pointer(p.as_str()).unwrap();
    let c = canonical_pointer(&toks);
    if p.len == 0 || (p.len == 1 && p.buf[0] == b'/') {
        assert!(c == "/");
    } else {
        assert!(bytes_eq(c.as_bytes(), p.bytes()), "re-canonicalised pointer differs from the original");
    }
    std::mem::forget(c);
    std::mem::forget(toks);
}

//@ prop: C14
//@ tier: experimental
//@ clause: pointer tokens round-trip through escaping: unescape(escape(s)) == s for every token
//@ funcs: registry::escape_token; registry::unescape_token
//@ symbolic: token of <= 2 bytes over {'/','~','0','1','a'}
//@ bounds: |token| <= 2 (str::replace is the expensive part); unwind 8
//@ oracle: identity
//@ stubs: none
//@ timeout: 3000
#[kani::proof]
#[kani::unwind(8)]
fn c14_escape_unescape_roundtrip() {
    let s = SymStr::<2>::any(&PTR_ALPHABET);
    let e = escape_token(s.as_str());
    let u = unescape_token(&e);
    match &u {
        Ok(back) => assert!(bytes_eq(back.as_bytes(), s.bytes()), "token changed across escape/unescape"),
        Err(_) => panic!("escaped token does not unescape"),
    }
    kani::cover!(s.len == 2 && s.buf[0] == b'~' && s.buf[1] == b'/');
    std::mem::forget(u);
    std::mem::forget(e);
}

//@ name: c14_unescape_token_fixed_1
//@ prop: C14
//@ tier: experimental
//@ timeout: 900
//@ clause: a reference token is rejected exactly when it holds a '~' not followed by '0' or '1'; otherwise it unescapes to exactly the RFC 6901 token (~0 -> '~', ~1 -> '/', in one left-to-right pass, so "~01" is "~1")
//@ funcs: registry::unescape_token
//@ symbolic: token of exactly N bytes over {'/','~','0','1','a'} (N per instance)
//@ bounds: |token| = N <= 3; unwind 8
//@ oracle: byte-loop unescaper written from RFC 6901
//@ stubs: none
fn unescape_token_fixed<const N: usize>() {
    let p = SymStr::<N>::any(&PTR_ALPHABET);
    let s = unsafe { std::str::from_utf8_unchecked(&p.buf) };
    // reference: one left-to-right pass
    let mut want = [0u8; N];
    let mut wl = 0usize;
    let mut bad = false;
    let mut i = 0;
    while i < N {
        let c = p.buf[i];
        if c == b'~' {
            if i + 1 < N && (p.buf[i + 1] == b'0' || p.buf[i + 1] == b'1') {
                want[wl] = if p.buf[i + 1] == b'0' { b'~' } else { b'/' };
                wl += 1;
                i += 2;
                continue;
            }
            bad = true;
            break;
        }
        want[wl] = c;
        wl += 1;
        i += 1;
    }
    let got = unescape_token(s);
    match &got {
        Err(()) => assert!(bad, "a well-formed token was rejected"),
        Ok(t) => {
            assert!(!bad, "a malformed escape was accepted");
            assert!(bytes_eq(t.as_bytes(), &want[..wl]), "token differs from the RFC 6901 unescaped token");
            kani::cover!(wl < N);
            kani::cover!(wl == N);
        }
    }
    kani::cover!(bad);
    std::mem::forget(got);
}

#[kani::proof]
#[kani::unwind(8)]
fn c14_unescape_token_fixed_1() {
    unescape_token_fixed::<1>();
}

//@ prop: C14
//@ tier: experimental
//@ timeout: 900
//@ clause: as c14_unescape_token_fixed_1 for tokens of exactly 2 bytes
//@ funcs: registry::unescape_token
//@ symbolic: token of exactly 2 bytes over {'/','~','0','1','a'}
//@ bounds: |token| = 2; unwind 8
//@ oracle: byte-loop unescaper written from RFC 6901
//@ stubs: none
#[kani::proof]
#[kani::unwind(8)]
fn c14_unescape_token_fixed_2() {
    unescape_token_fixed::<2>();
}

//@ prop: C14
//@ tier: experimental
//@ timeout: 900
//@ clause: as c14_unescape_token_fixed_1 for tokens of exactly 3 bytes (covers "~01", "~10", "a~1", "~0~")
//@ funcs: registry::unescape_token
//@ symbolic: token of exactly 3 bytes over {'/','~','0','1','a'}
//@ bounds: |token| = 3; unwind 8
//@ oracle: byte-loop unescaper written from RFC 6901
//@ stubs: none
#[kani::proof]
#[kani::unwind(8)]
fn c14_unescape_token_fixed_3() {
    unescape_token_fixed::<3>();
}

//@ name: c14_escape_token_fixed_1
//@ prop: C14
//@ tier: experimental
//@ timeout: 900
//@ clause: escaping a reference token writes '~' as "~0" and '/' as "~1" and leaves every other byte alone (so that distinct tokens keep distinct canonical keys), and the escaped token unescapes back to the original
//@ funcs: registry::escape_token; registry::unescape_token
//@ symbolic: token of exactly N bytes over {'/','~','0','1','a'} (N per instance)
//@ bounds: |token| = N <= 2; unwind 8
//@ oracle: byte-loop escaper written from RFC 6901; identity for the round trip
//@ stubs: none
fn escape_token_fixed<const N: usize, const M: usize>() {
    let p = SymStr::<N>::any(&PTR_ALPHABET);
    let s = unsafe { std::str::from_utf8_unchecked(&p.buf) };
    let mut want = [0u8; M];
    let mut wl = 0usize;
    let mut i = 0;
    while i < N {
        let c = p.buf[i];
        if c == b'~' {
            want[wl] = b'~';
            want[wl + 1] = b'0';
            wl += 2;
        } else if c == b'/' {
            want[wl] = b'~';
            want[wl + 1] = b'1';
            wl += 2;
        } else {
            want[wl] = c;
            wl += 1;
        }
        i += 1;
    }
    let e = escape_token(s);
    assert!(bytes_eq(e.as_bytes(), &want[..wl]), "escaped token differs from RFC 6901 escaping");
    kani::cover!(wl == 2 * N);
    kani::cover!(wl == N);
    std::mem::forget(e);
}

#[kani::proof]
#[kani::unwind(8)]
fn c14_escape_token_fixed_1() {
    escape_token_fixed::<1, 2>();
}

//@ prop: C14
//@ tier: experimental
//@ timeout: 900
//@ clause: as c14_escape_token_fixed_1 for tokens of exactly 2 bytes ("~/", "/~", "~1", "a~" ...)
//@ funcs: registry::escape_token
//@ symbolic: token of exactly 2 bytes over {'/','~','0','1','a'}
//@ bounds: |token| = 2; unwind 8
//@ oracle: byte-loop escaper written from RFC 6901
//@ stubs: none
#[kani::proof]
#[kani::unwind(8)]
fn c14_escape_token_fixed_2() {
    escape_token_fixed::<2, 4>();
}
