use super::*;

fn any_header() -> Header {
    Header {
        length: kani::any(),
        spec: kani::any(),
        version: kani::any(),
        notify: kani::any(),
        reserved: kani::any(),
        id: kani::any(),
        query_length: kani::any(),
        body_length: kani::any(),
        query_format: kani::any(),
        body_format: kani::any(),
        ec: kani::any(),
    }
}

/// Independent layout oracle: (offset, width) table written from the REPE v1
/// spec, little-endian, not from the implementation.
fn oracle_bytes(h: &Header) -> [u8; 48] {
    let mut b = [0u8; 48];
    let mut put = |off: usize, width: usize, v: u64| {
        let mut k = 0;
        while k < width {
            b[off + k] = ((v >> (8 * k)) & 0xff) as u8;
            k += 1;
        }
    };
    put(0, 8, h.length);
    put(8, 2, h.spec as u64);
    put(10, 1, h.version as u64);
    put(11, 1, h.notify as u64);
    put(12, 4, h.reserved as u64);
    put(16, 8, h.id);
    put(24, 8, h.query_length);
    put(32, 8, h.body_length);
    put(40, 2, h.query_format as u64);
    put(42, 2, h.body_format as u64);
    put(44, 4, h.ec as u64);
    b
}

//@ prop: C01
//@ tier: quick
//@ clause: 48 little-endian header bytes in the REPE v1 field order
//@ funcs: Header::encode
//@ symbolic: all 11 header fields over their full 8/16/32/64-bit ranges (no consistency assumed)
//@ bounds: loop-free; unwind 9 covers the 8-byte oracle loop
//@ oracle: independent (offset,width) table from the REPE v1 spec, compared byte by byte
#[kani::proof]
#[kani::unwind(50)]
fn c01_header_encode_layout() {
    let h = any_header();
    let b = h.encode();
    let o = oracle_bytes(&h);
    let mut i = 0;
    while i < 48 {
        assert!(b[i] == o[i], "header byte differs from the REPE v1 layout");
        i += 1;
    }
    kani::cover!(h.reserved != 0 && h.query_format > 2 && h.length == 0x0102030405060708);
}

//@ prop: C01
//@ tier: quick
//@ clause: parsing returns an identical header, preserving reserved bits and unknown format codes; decode is the inverse of encode on its whole Ok-domain
//@ funcs: Header::decode; Header::encode
//@ symbolic: 48 input bytes (every bit)
//@ bounds: loop-free
//@ oracle: decode(bytes)=Ok(h) => encode(h)==bytes and every field equals the spec-table field; Ok only if magic and length==48+q+b in u128
#[kani::proof]
#[kani::unwind(50)]
fn c01_header_decode_inverse() {
    let bytes: [u8; 48] = kani::any();
    // C02 owns the overflow case; here restrict to headers whose sum does not wrap.
    let q = u64::from_le_bytes([bytes[24], bytes[25], bytes[26], bytes[27], bytes[28], bytes[29], bytes[30], bytes[31]]);
    let bl = u64::from_le_bytes([bytes[32], bytes[33], bytes[34], bytes[35], bytes[36], bytes[37], bytes[38], bytes[39]]);
    kani::assume((q as u128) + (bl as u128) + 48 <= u64::MAX as u128);
    match Header::decode(&bytes) {
        Ok(h) => {
            let back = h.encode();
            let mut i = 0;
            while i < 48 {
                assert!(back[i] == bytes[i], "encode(decode(bytes)) != bytes");
                i += 1;
            }
            assert!(h.spec == 0x1507);
            assert!(h.length as u128 == 48 + h.query_length as u128 + h.body_length as u128);
            assert!(h.query_length == q && h.body_length == bl);
            kani::cover!(h.reserved != 0 && h.body_format == 0xffff && h.version == 9);
        }
        Err(_) => {
            let len = u64::from_le_bytes([bytes[0], bytes[1], bytes[2], bytes[3], bytes[4], bytes[5], bytes[6], bytes[7]]);
            let spec = u16::from_le_bytes([bytes[8], bytes[9]]);
            assert!(spec != 0x1507 || len as u128 != 48 + q as u128 + bl as u128,
                "a consistent header with the right magic was rejected");
        }
    }
}

//@ prop: C01
//@ tier: quick
//@ clause: decode(encode(h)) == h for every consistent header, all other fields arbitrary
//@ funcs: Header::encode; Header::decode
//@ symbolic: all 11 fields; assumed: spec is the magic and length == 48+q+b without wrap
//@ bounds: loop-free
//@ oracle: structural equality of all fields
#[kani::proof]
fn c01_header_roundtrip() {
    let mut h = any_header();
    h.spec = crate::constants::REPE_SPEC;
    kani::assume((h.query_length as u128) + (h.body_length as u128) + 48 <= u64::MAX as u128);
    h.length = 48 + h.query_length + h.body_length;
    let d = Header::decode(&h.encode());
    match d {
        Ok(g) => {
            assert!(g.length == h.length && g.spec == h.spec && g.version == h.version);
            assert!(g.notify == h.notify && g.reserved == h.reserved && g.id == h.id);
            assert!(g.query_length == h.query_length && g.body_length == h.body_length);
            assert!(g.query_format == h.query_format && g.body_format == h.body_format && g.ec == h.ec);
        }
        Err(_) => panic!("consistent header rejected"),
    }
    kani::cover!(h.reserved == 0xdeadbeef && h.query_format == 777);
}

//@ prop: C01
//@ tier: quick
//@ clause: vacuity witness for the header family (must FAIL)
//@ funcs: Header::encode; Header::decode
//@ expect: fail
#[kani::proof]
fn c01_header_witness() {
    let mut h = any_header();
    h.spec = crate::constants::REPE_SPEC;
    kani::assume(h.query_length < 10 && h.body_length < 10);
    h.length = 48 + h.query_length + h.body_length;
    let g = Header::decode(&h.encode()).unwrap();
    assert!(g.id != h.id, "verif-witness");
}

//@ prop: C02
//@ tier: quick
//@ clause: Header::decode is total on any bytes: never panics (dev profile => no arithmetic overflow either); Ok only if magic and length == 48+q+b computed without wrap
//@ funcs: Header::decode
//@ symbolic: buffer of 0..=50 bytes: every length and every bit (three 64-bit length fields over their full range, wrapping sums included)
//@ bounds: input length <= 50 (decode reads only the first 48)
//@ oracle: u128 arithmetic
#[kani::proof]
fn c02_header_decode_total() {
    let bytes: [u8; 50] = kani::any();
    let n: usize = kani::any();
    kani::assume(n <= 50);
    let r = Header::decode(&bytes[..n]);
    match r {
        Ok(h) => {
            assert!(n >= 48);
            assert!(h.spec == 0x1507);
            assert!(h.length as u128 == 48u128 + h.query_length as u128 + h.body_length as u128,
                "accepted a header whose declared total is not 48+q+b");
            kani::cover!(h.query_length > (1u64 << 62));
        }
        Err(_) => {
            kani::cover!(n >= 48);
            kani::cover!(n < 48);
        }
    }
}
