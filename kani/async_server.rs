use super::*;
use crate::verif_common::*;

//@ name: c01_async_server_framing_echo
//@ prop: C01
//@ tier: quick
//@ clause: the async server's response framing (borrowed query echo) emits the header with length = 48 + |query| + |body| and query_length patched, then the echoed query (the handler's own if it set one), then the body - the same frame the blocking and WebSocket routes produce for that response
//@ funcs: async_server::write_view_response; message::response_echo_query; Header::encode
//@ symbolic: response header (all fields except magic/lengths), response body bytes, request query bytes, whether the handler set its own query and its byte
//@ bounds: |request query|=2, handler query empty (per-instance), |body|=3; writer = tokio's in-memory AsyncWrite for Vec<u8>; unwind 60
//@ oracle: independent REPE v1 layout table on the patched header || echoed query || body
fn async_server_framing<const OWN_Q: bool>() {
    let mut h = any_header();
    h.spec = crate::constants::REPE_SPEC;
    let own_q: bool = OWN_Q;
    let own: [u8; 1] = kani::any();
    let b: [u8; 3] = kani::any();
    let rq: [u8; 2] = kani::any();
    let ownv: Vec<u8> = if own_q { own.to_vec() } else { Vec::new() };
    h.query_length = ownv.len() as u64;
    h.body_length = 3;
    h.length = 48 + h.query_length + 3;
    let resp = Message { header: h, query: ownv, body: b.to_vec() };
    let echo = crate::message::response_echo_query(&resp, &rq);
    let elen = echo.len();
    assert!(elen == if own_q { 1 } else { 2 });
    let mut out: Vec<u8> = Vec::with_capacity(64);
    let r2 = block_on_ready(write_view_response(&mut out, &resp, echo));
    assert!(r2.is_ok());
    std::mem::forget(r2);
    let mut want = h;
    want.query_length = elen as u64;
    want.length = (48 + elen + 3) as u64;
    let hb = spec_header_bytes(&want);
    assert!(out.len() == 48 + elen + 3, "async server framed a different number of bytes");
    let mut i = 0;
    while i < 48 {
        assert!(out[i] == hb[i], "async server: header (length fields) differs from 48+query+body framing");
        i += 1;
    }
    if own_q {
        assert!(out[48] == own[0], "handler-set query not preserved");
    } else {
        assert!(out[48] == rq[0] && out[49] == rq[1], "request query not echoed");
    }
    let mut k = 0;
    while k < 3 {
        assert!(out[48 + elen + k] == b[k]);
        k += 1;
    }
    std::mem::forget(out);
    std::mem::forget(resp);
}

#[kani::proof]
#[kani::unwind(60)]
fn c01_async_server_framing_echo() {
    async_server_framing::<false>();
}

//@ prop: C01
//@ tier: quick
//@ clause: as c01_async_server_framing_echo when the handler set its own response query: it is preserved and the header length fields are recomputed from it (not added on top)
//@ funcs: async_server::write_view_response; message::response_echo_query; Header::encode
//@ symbolic: as c01_async_server_framing_echo plus the handler-set query byte
//@ bounds: |request query|=2, |handler query|=1, |body|=3; unwind 60
//@ oracle: independent REPE v1 layout table on the patched header || handler query || body
#[kani::proof]
#[kani::unwind(60)]
fn c01_async_server_framing_own_query() {
    async_server_framing::<true>();
}
