use super::*;
use crate::verif_common::*;

//@ prop: C14, C07
//@ tier: experimental
//@ clause: json_pointer::parse yields exactly the RFC 6901 unescaped reference tokens of a well-formed pointer (the tokenizer behind struct dispatch and eval_json_pointer)
//@ funcs: json_pointer::parse
//@ symbolic: pointer of <= 3 bytes over {'/','~','0','1','a'}, well-formed ('/'-prefixed or empty, every '~' followed by 0/1)
//@ bounds: |pointer| <= 3; unwind 8
//@ oracle: byte-loop RFC 6901 tokenizer ("/" is one empty token in this dialect)
//@ stubs: none
//@ timeout: 3000
#[kani::proof]
#[kani::unwind(8)]
fn c14_json_pointer_parse_rfc6901() {
    let p = SymStr::<3>::any(&[b'/', b'~', b'0', b'1', b'a']);
    kani::assume(p.len == 0 || p.buf[0] == b'/');
    // reference tokens
    let b = p.bytes();
    let mut count = 0usize;
    let mut lens = [0usize; 4];
    let mut bytes = [[0u8; 4]; 4];
    let mut ok = true;
    if !b.is_empty() {
        count = 1;
        let mut i = 1;
        while i < b.len() {
            let c = b[i];
            let k = count - 1;
            if c == b'/' {
                count += 1;
            } else if c == b'~' {
                if i + 1 < b.len() && (b[i + 1] == b'0' || b[i + 1] == b'1') {
                    bytes[k][lens[k]] = if b[i + 1] == b'0' { b'~' } else { b'/' };
                    lens[k] += 1;
                    i += 1;
                } else {
                    ok = false;
                }
            } else {
                bytes[k][lens[k]] = c;
                lens[k] += 1;
            }
            i += 1;
        }
    }
    kani::assume(ok);
    let toks = parse(p.as_str());
    assert!(toks.len() == count, "token count differs from RFC 6901");
    let mut i = 0;
    while i < count {
        assert!(bytes_eq(toks[i].as_bytes(), &bytes[i][..lens[i]]), "token differs from RFC 6901");
        i += 1;
    }
    std::mem::forget(toks);
}
