use super::*;

//@ name: c04_client_validate_response
//@ prop: C04
//@ tier: quick
//@ clause: a call never returns a response whose id differs from its own request's id (whatever the reply order or interleaving: this filter sits on the return path of every call); version and error code are surfaced as errors, a server error keeps its code
//@ funcs: Client::validate_response
//@ symbolic: expected id and all 11 response header fields (full width); body chosen by selector among empty / one non-UTF-8 byte / "ok"
//@ bounds: body <= 2 bytes; unwind 6
//@ oracle: Ok(r) => r.header.id == expected and version == 1 and ec == 0 and r is the response unchanged; ec != 0 => ServerError with that code (unknown codes map to ParseError); id mismatch => ResponseIdMismatch
//@ stubs: alloc::fmt::format -> empty String
#[kani::proof]
#[kani::stub(std::fmt::format, crate::verif_common::format_stub)]
#[kani::unwind(6)]
fn c04_client_validate_response() {
    let expected: u64 = kani::any();
    let h = crate::verif_common::any_header();
    let body: Vec<u8> = match kani::any::<u8>() % 3 {
        0 => Vec::new(),
        1 => vec![0xffu8], // not UTF-8 (concrete: lossy decoding of a symbolic byte costs minutes)
        _ => vec![b'o', b'k'],
    };
    let blen = body.len();
    let resp = Message { header: h, query: Vec::new(), body };
    match Client::validate_response(expected, resp) {
        Ok(r) => {
            assert!(r.header.id == expected, "call returned a response with another id");
            assert!(h.id == expected && h.version == 1 && h.ec == 0);
            assert!(r.header == h && r.body.len() == blen);
            std::mem::forget(r);
        }
        Err(e) => {
            match &e {
                RepeError::VersionMismatch(v) => assert!(*v == h.version && h.version != 1),
                RepeError::ResponseIdMismatch { expected: ex, got } => {
                    assert!(h.version == 1 && *ex == expected && *got == h.id && h.id != expected)
                }
                RepeError::ServerError { code, .. } => {
                    assert!(h.version == 1 && h.id == expected && h.ec != 0);
                    let want = ErrorCode::try_from(h.ec).unwrap_or(ErrorCode::ParseError);
                    assert!(*code == want);
                }
                _ => panic!("unexpected error kind"),
            }
            std::mem::forget(e);
        }
    }
    kani::cover!(h.id == expected && h.version == 1 && h.ec == 0);
    kani::cover!(h.id != expected && h.version == 1);
    kani::cover!(h.id == expected && h.version == 1 && h.ec == 4097);
}

// ------------------------------------------------------------------------
// Model connections for the fleet retry-loop harnesses (kani/fleet.rs): a real
// `Client` value over a never-used socket number, identified by its id counter.
// One extra strong count is leaked so `ClientInner::drop` (socket shutdown and
// close: syscalls) never runs inside the model; dropping a cached client then is
// just the reference-count decrement.
pub(crate) fn model_client(conn: u64) -> Client {
    use std::os::fd::FromRawFd;
    let stream = unsafe { TcpStream::from_raw_fd(1000) };
    let c = Client {
        inner: Arc::new(ClientInner {
            writer: Mutex::new(BufWriter::with_capacity(1, stream)),
            pending: Mutex::new(HashMap::new()),
            next_id: AtomicU64::new(conn),
        }),
    };
    std::mem::forget(c.clone());
    c
}

pub(crate) fn model_client_conn(c: &Client) -> u64 {
    c.inner.next_id.load(Ordering::Relaxed)
}

/// Stand-in for `<ClientInner as Drop>::drop` (socket shutdown + failing the
/// pending callers through their mpsc channels): never executed in the model
/// (see `model_client`), but its body must not be compiled in either -- Kani
/// 0.68 aborts with an internal error on code reachable from it.
pub(crate) fn client_inner_drop_stub(_this: &mut ClientInner) {}

//@ name: c04_client_request_ids_distinct
//@ prop: C04
//@ tier: quick
//@ clause: all request ids issued on one connection are distinct: from any state of the connection's counter (including just below the 2^64 wrap), four consecutive ids are pairwise different, so two calls in flight together never share a pending-map key
//@ funcs: Client::next_request_id
//@ symbolic: the counter value (full width)
//@ bounds: 4 consecutive ids on one blocking Client
//@ oracle: pairwise inequality (how the ids are chosen is not prescribed)
//@ stubs: RandomState::new -> fixed keys; <ClientInner as Drop>::drop -> no-op; Arc::drop_slow -> leak
#[kani::proof]
#[kani::stub(std::hash::RandomState::new, crate::verif_common::random_state_stub)]
#[kani::stub(<ClientInner as std::ops::Drop>::drop, client_inner_drop_stub)]
#[kani::stub(std::sync::Arc::drop_slow, crate::verif_common::arc_drop_slow_stub)]
fn c04_client_request_ids_distinct() {
    let start: u64 = kani::any();
    let c = model_client(start);
    let other = c.clone(); // clones share the connection and its counter
    let a = c.next_request_id();
    let b = other.next_request_id();
    let d = c.next_request_id();
    let e = other.next_request_id();
    assert!(a != b && a != d && a != e && b != d && b != e && d != e, "two requests on one connection got the same id");
    kani::cover!(start == u64::MAX - 1);
    std::mem::forget(c);
    std::mem::forget(other);
}

static mut PAR_OK: bool = true;
static mut PAR_N: usize = 1;
fn available_parallelism_stub() -> std::io::Result<std::num::NonZeroUsize> {
    unsafe {
        if PAR_OK {
            Ok(std::num::NonZeroUsize::new(PAR_N).unwrap())
        } else {
            Err(std::io::Error::from(ErrorKind::Unsupported))
        }
    }
}

//@ name: c04_batch_worker_count
//@ prop: C04
//@ tier: quick
//@ clause: a batch always has a worker to fill each request's positional slot: for every batch size and every answer of the OS about available parallelism (any count, or an error) the worker count is at least 1 when there is work
//@ funcs: client::batch_worker_count
//@ symbolic: request count (full width), available parallelism (any non-zero usize, or Err)
//@ bounds: none beyond the machine word
//@ oracle: workers >= 1 whenever requests >= 1 (the cap and the empty batch are not prescribed by the property)
//@ stubs: thread::available_parallelism -> symbolic answer
#[kani::proof]
#[kani::stub(std::thread::available_parallelism, available_parallelism_stub)]
#[kani::unwind(4)]
fn c04_batch_worker_count() {
    let n: usize = kani::any();
    let par: usize = kani::any();
    kani::assume(par >= 1);
    unsafe {
        PAR_OK = kani::any();
        PAR_N = par;
    }
    let w = batch_worker_count(n);
    if n != 0 {
        assert!(w >= 1, "no worker for a non-empty batch: every positional result would be missing");
    }
    kani::cover!(n > 64 && w > 1);
    kani::cover!(n == 1 && w == 1);
}
