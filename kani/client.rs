use super::*;

//@ name: c04_client_validate_response
//@ prop: C04
//@ tier: quick
//@ clause: a call never returns a response whose id differs from its own request's id (whatever the reply order or interleaving: this filter sits on the return path of every call); version and error code are surfaced as errors, a server error keeps its code
//@ funcs: Client::validate_response
//@ symbolic: expected id and all 11 response header fields (full width); body chosen by selector among empty / one non-UTF-8 byte / "ok"
//@ bounds: body <= 2 bytes; unwind 6
//@ oracle: Ok(r) => r.header.id == expected and version == 1 and ec == 0 and r is the response unchanged; ec != 0 => ServerError with that code (unknown codes map to ParseError); id mismatch => ResponseIdMismatch
//@ stubs: alloc::fmt::format -> empty String
#[kani::proof]
#[kani::stub(std::fmt::format, crate::verif_common::format_stub)]
#[kani::unwind(6)]
fn c04_client_validate_response() {
    let expected: u64 = kani::any();
    let h = crate::verif_common::any_header();
    let body: Vec<u8> = match kani::any::<u8>() % 3 {
        0 => Vec::new(),
        1 => vec![0xffu8], // not UTF-8 (concrete: lossy decoding of a symbolic byte costs minutes)
        _ => vec![b'o', b'k'],
    };
    let blen = body.len();
    let resp = Message { header: h, query: Vec::new(), body };
    match Client::validate_response(expected, resp) {
        Ok(r) => {
            assert!(r.header.id == expected, "call returned a response with another id");
            assert!(h.id == expected && h.version == 1 && h.ec == 0);
            assert!(r.header == h && r.body.len() == blen);
            std::mem::forget(r);
        }
        Err(e) => {
            match &e {
                RepeError::VersionMismatch(v) => assert!(*v == h.version && h.version != 1),
                RepeError::ResponseIdMismatch { expected: ex, got } => {
                    assert!(h.version == 1 && *ex == expected && *got == h.id && h.id != expected)
                }
                RepeError::ServerError { code, .. } => {
                    assert!(h.version == 1 && h.id == expected && h.ec != 0);
                    let want = ErrorCode::try_from(h.ec).unwrap_or(ErrorCode::ParseError);
                    assert!(*code == want);
                }
                _ => panic!("unexpected error kind"),
            }
            std::mem::forget(e);
        }
    }
    kani::cover!(h.id == expected && h.version == 1 && h.ec == 0);
    kani::cover!(h.id != expected && h.version == 1);
    kani::cover!(h.id == expected && h.version == 1 && h.ec == 4097);
}

// ------------------------------------------------------------------------
// Model connections for the fleet retry-loop harnesses (kani/fleet.rs): a real
// `Client` value over a never-used socket number, identified by its id counter.
// One extra strong count is leaked so `ClientInner::drop` (socket shutdown and
// close: syscalls) never runs inside the model; dropping a cached client then is
// just the reference-count decrement.
pub(crate) fn model_client(conn: u64) -> Client {
    use std::os::fd::FromRawFd;
    let stream = unsafe { TcpStream::from_raw_fd(1000) };
    let c = Client {
        inner: Arc::new(ClientInner {
            writer: Mutex::new(BufWriter::with_capacity(1, stream)),
            pending: Mutex::new(HashMap::new()),
            next_id: AtomicU64::new(conn),
        }),
    };
    std::mem::forget(c.clone());
    c
}

pub(crate) fn model_client_conn(c: &Client) -> u64 {
    c.inner.next_id.load(Ordering::Relaxed)
}

/// Stand-in for `<ClientInner as Drop>::drop` (socket shutdown + failing the
/// pending callers through their mpsc channels): never executed in the model
/// (see `model_client`), but its body must not be compiled in either -- Kani
/// 0.68 aborts with an internal error on code reachable from it.
pub(crate) fn client_inner_drop_stub(_this: &mut ClientInner) {}
