use super::*;

//@ prop: C17
//@ tier: quick
//@ clause: the outbound guard refuses exactly the sizes above the configured limit and nothing when no limit is configured
//@ funcs: WebSocketLimits::check_outbound
//@ symbolic: size and limit over the full usize range; limit present or absent
//@ bounds: none (loop-free)
//@ oracle: Err iff Some(limit) and size > limit; the error carries the same size and limit
#[kani::proof]
fn c17_check_outbound_exact() {
    let size: usize = kani::any();
    let limit: Option<usize> = if kani::any() { Some(kani::any()) } else { None };
    let l = WebSocketLimits::unlimited().with_assumed_peer_frame_limit(limit);
    match l.check_outbound(size) {
        Ok(()) => assert!(limit.map(|x| size <= x).unwrap_or(true)),
        Err(crate::RepeError::MessageTooLarge { size: s, limit: x }) => {
            assert!(limit == Some(x) && s == size && size > x);
        }
        Err(_) => panic!("unexpected error kind"),
    }
    kani::cover!(limit == Some(size));
    kani::cover!(limit.is_some() && limit.unwrap() < usize::MAX && size == limit.unwrap() + 1);
}
