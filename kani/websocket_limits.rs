use super::*;

//@ prop: C17
//@ tier: quick
//@ clause: the outbound guard refuses exactly the sizes above the configured limit and nothing when no limit is configured
//@ funcs: WebSocketLimits::check_outbound
//@ symbolic: size and limit over the full usize range; limit present or absent
//@ bounds: none (loop-free)
//@ oracle: Err iff Some(limit) and size > limit; the error carries the same size and limit
#[kani::proof]
fn c17_check_outbound_exact() {
    let size: usize = kani::any();
    let limit: Option<usize> = if kani::any() { Some(kani::any()) } else { None };
    let l = WebSocketLimits::unlimited().with_assumed_peer_frame_limit(limit);
    match l.check_outbound(size) {
        Ok(()) => assert!(limit.map(|x| size <= x).unwrap_or(true)),
        Err(crate::RepeError::MessageTooLarge { size: s, limit: x }) => {
            assert!(limit == Some(x) && s == size && size > x);
        }
        Err(_) => panic!("unexpected error kind"),
    }
    kani::cover!(limit == Some(size));
    kani::cover!(limit.is_some() && limit.unwrap() < usize::MAX && size == limit.unwrap() + 1);
}

//@ prop: C17
//@ tier: quick
//@ clause: the limit the outbound guard enforces is exactly the assumed peer limit the application configured: the inbound setters (and the order in which setters are called) never raise, lower or clear it
//@ funcs: WebSocketLimits::default, ::unlimited, ::with_max_incoming_frame_size, ::with_max_incoming_message_size, ::with_assumed_peer_frame_limit, ::check_outbound
//@ symbolic: the three configured values (full width, present or absent), the base (default / unlimited), the position of the assumed-limit setter among the inbound setters, the checked size
//@ bounds: one call of each setter
//@ oracle: check_outbound(size) refuses iff size exceeds the value last passed to with_assumed_peer_frame_limit (the base's own value if it was never called)
#[kani::proof]
fn c17_assumed_limit_independent_of_inbound_setters() {
    let opt = |present: bool, v: usize| if present { Some(v) } else { None };
    let frame = opt(kani::any(), kani::any());
    let message = opt(kani::any(), kani::any());
    let assumed = opt(kani::any(), kani::any());
    let from_default: bool = kani::any();
    let base = if from_default { WebSocketLimits::default() } else { WebSocketLimits::unlimited() };
    let position: u8 = kani::any();
    let set_assumed: bool = kani::any();
    let l = match (set_assumed, position % 3) {
        (false, _) => base.with_max_incoming_frame_size(frame).with_max_incoming_message_size(message),
        (true, 0) => base.with_assumed_peer_frame_limit(assumed).with_max_incoming_frame_size(frame).with_max_incoming_message_size(message),
        (true, 1) => base.with_max_incoming_frame_size(frame).with_assumed_peer_frame_limit(assumed).with_max_incoming_message_size(message),
        (true, _) => base.with_max_incoming_frame_size(frame).with_max_incoming_message_size(message).with_assumed_peer_frame_limit(assumed),
    };
    let effective = if set_assumed { assumed } else { base.assumed_peer_frame_limit };
    assert!(l.assumed_peer_frame_limit == effective, "an inbound setter changed the assumed peer limit");
    let size: usize = kani::any();
    let r = l.check_outbound(size);
    assert!(r.is_err() == effective.map(|x| size > x).unwrap_or(false), "the guard enforces a different limit than the configured one");
    kani::cover!(set_assumed && position % 3 == 0 && frame.is_some() && assumed.is_some() && frame.unwrap() > assumed.unwrap() && r.is_err());
    std::mem::forget(r);
}
