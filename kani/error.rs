use super::*;
