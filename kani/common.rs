// Shared environment stubs for the Kani harnesses (compiled only under cfg(kani)
// as `crate::verif_common`). Every stub is an assumption about the environment
// and is listed per harness in the `//@ stubs:` annotation.

use std::time::{Duration, Instant};

// ---------------------------------------------------------------- clock ----
// `Instant::now` -> arbitrary NON-DECREASING instants. Granularity is whole
// seconds (Duration::from_nanos would put a 64-bit division by 10^9 into every
// query); only the order of instants matters to the code under test.
pub static mut CLOCK_S: u64 = 0;
pub static mut CLOCK_READS: u32 = 0;
/// When > 0 the next that-many readings do not advance the clock (lets a
/// harness pin the first reading a function takes).
pub static mut FORCE_ZERO_STEPS: u32 = 0;
/// Steps are drawn by the HARNESS (clock_init) and only consumed here, so the
/// stub itself never calls kani::any(): a native concrete playback (which runs
/// without stubs) keeps the harness's own kani::any() values aligned.
pub const CLOCK_MAX_READS: usize = 12;
pub static mut CLOCK_STEPS: [u64; CLOCK_MAX_READS] = [0; CLOCK_MAX_READS];

pub fn clock_init() {
    let steps: [u64; CLOCK_MAX_READS] = kani::any();
    unsafe {
        CLOCK_STEPS = steps;
    }
}

/// Build an Instant with exactly (secs, 0 ns) by transmuting the raw
/// representation. `Instant + Duration` cannot be used: under Kani 0.68 the
/// nanosecond field of the Timespec built by std's `Timespec::new_unchecked`
/// comes out nondeterministic (a niche-typed scalar is left unassigned), which is
/// an over-approximation that made "deadline - now" differ from the stub's clock
/// by up to a second. Layout assumption (checked by c12_clock_model_sanity):
/// Instant = { tv_sec: i64 @0, tv_nsec: u32 @8 }.
#[repr(C)]
struct RawInstant {
    sec: i64,
    nsec: u32,
    pad: u32,
}

pub fn instant_at(secs: u64) -> Instant {
    unsafe { std::mem::transmute::<RawInstant, Instant>(RawInstant { sec: secs as i64, nsec: 0, pad: 0 }) }
}

pub fn now_stub() -> Instant {
    unsafe {
        let idx = CLOCK_READS as usize;
        // more readings than pre-drawn steps: outside the bound, cut the path
        kani::assume(idx < CLOCK_MAX_READS);
        // each step is < 2^32 s (masked: no loop needed to constrain the array)
        // strictly increasing readings (>= 1 s apart): std computes some deadlines with
        // `Instant + Duration`, whose nanoseconds Kani leaves nondeterministic, so two
        // readings in the same second would be ordered arbitrarily
        let mut step = (CLOCK_STEPS[idx] & 0xffff_ffff) + 1;
        if FORCE_ZERO_STEPS > 0 {
            FORCE_ZERO_STEPS -= 1;
            step = 0;
        }
        CLOCK_S += step;
        CLOCK_READS += 1;
        instant_at(CLOCK_S)
    }
}

pub fn clock_s() -> u64 {
    unsafe { CLOCK_S }
}

// -------------------------------------------------------------- condvar ----
// The real notify_* is a futex syscall; the stub counts signals. The counter is
// the observable for C12 obligation O1.
pub static mut NOTIFY_ALL: u32 = 0;
pub static mut NOTIFY_ONE: u32 = 0;

pub fn notify_all_stub(_cv: &std::sync::Condvar) {
    unsafe {
        NOTIFY_ALL += 1;
    }
}
pub fn notify_one_stub(_cv: &std::sync::Condvar) {
    unsafe {
        NOTIFY_ONE += 1;
    }
}
pub fn notify_count() -> u32 {
    unsafe { NOTIFY_ALL }
}

// --------------------------------------------------------------- format ----
// Error-message text is not the subject of any property.
pub fn format_stub(_args: std::fmt::Arguments<'_>) -> String {
    // Built through a named local with a real heap buffer: returning the
    // const-promoted `String::new()` directly made Kani read the result through a
    // dead temporary at some call sites (garbage capacity => bogus dealloc failures).
    let mut s = String::with_capacity(8);
    s.clear();
    s
}

// ------------------------------------------------------------ allocator ----
// Requests of >= 2^62 bytes can never be satisfied (the property's own
// dichotomy); everything else goes to the normal (Kani-modelled) allocator.
pub const NEVER_ALLOCATABLE: usize = 1usize << 62;

pub unsafe fn alloc_stub(layout: std::alloc::Layout) -> *mut u8 {
    if layout.size() >= NEVER_ALLOCATABLE {
        std::ptr::null_mut()
    } else {
        unsafe { std::alloc::GlobalAlloc::alloc(&std::alloc::System, layout) }
    }
}
pub unsafe fn alloc_zeroed_stub(layout: std::alloc::Layout) -> *mut u8 {
    if layout.size() >= NEVER_ALLOCATABLE {
        std::ptr::null_mut()
    } else {
        unsafe { std::alloc::GlobalAlloc::alloc_zeroed(&std::alloc::System, layout) }
    }
}
pub unsafe fn realloc_stub(ptr: *mut u8, layout: std::alloc::Layout, new_size: usize) -> *mut u8 {
    if new_size >= NEVER_ALLOCATABLE {
        std::ptr::null_mut()
    } else {
        unsafe { std::alloc::GlobalAlloc::realloc(&std::alloc::System, ptr, layout, new_size) }
    }
}

// --------------------------------------------------------------- hasher ----
// RandomState::new is a getrandom syscall; HashMap behaviour must not depend
// on the keys.
pub fn random_state_stub() -> std::hash::RandomState {
    unsafe { std::mem::transmute::<[u64; 2], std::hash::RandomState>([0u64, 0u64]) }
}

// ------------------------------------------------------------ REPE layout ----
/// Independent header layout oracle: (offset, width) pairs written from the
/// REPE v1 spec, little-endian -- not derived from Header::encode.
pub fn spec_header_bytes(h: &crate::header::Header) -> [u8; 48] {
    let mut b = [0u8; 48];
    let mut put = |off: usize, width: usize, v: u64| {
        let mut k = 0;
        while k < width {
            b[off + k] = ((v >> (8 * k)) & 0xff) as u8;
            k += 1;
        }
    };
    put(0, 8, h.length);
    put(8, 2, h.spec as u64);
    put(10, 1, h.version as u64);
    put(11, 1, h.notify as u64);
    put(12, 4, h.reserved as u64);
    put(16, 8, h.id);
    put(24, 8, h.query_length);
    put(32, 8, h.body_length);
    put(40, 2, h.query_format as u64);
    put(42, 2, h.body_format as u64);
    put(44, 4, h.ec as u64);
    b
}

pub fn any_header() -> crate::header::Header {
    crate::header::Header {
        length: kani::any(),
        spec: kani::any(),
        version: kani::any(),
        notify: kani::any(),
        reserved: kani::any(),
        id: kani::any(),
        query_length: kani::any(),
        body_length: kani::any(),
        query_format: kani::any(),
        body_format: kani::any(),
        ec: kani::any(),
    }
}

/// A `Write` sink that accepts at most CAP bytes per call (short writes), into
/// a fixed 128-byte buffer.
pub struct ShortSink<const CAP: usize> {
    pub out: [u8; 128],
    pub len: usize,
    pub flushed: u32,
}
impl<const CAP: usize> ShortSink<CAP> {
    pub fn new() -> Self {
        ShortSink { out: [0u8; 128], len: 0, flushed: 0 }
    }
}
impl<const CAP: usize> std::io::Write for ShortSink<CAP> {
    fn write(&mut self, buf: &[u8]) -> std::io::Result<usize> {
        let k = if buf.len() < CAP { buf.len() } else { CAP };
        self.out[self.len..self.len + k].copy_from_slice(&buf[..k]);
        self.len += k;
        Ok(k)
    }
    fn flush(&mut self) -> std::io::Result<()> {
        self.flushed += 1;
        Ok(())
    }
}

// ------------------------------------------------------- symbolic strings ----
/// A string of symbolic length <= N whose bytes are drawn from a small ASCII
/// alphabet (so it is always valid UTF-8 without running the validator).
pub struct SymStr<const N: usize> {
    pub buf: [u8; N],
    pub len: usize,
}

impl<const N: usize> SymStr<N> {
    pub fn any(alphabet: &[u8]) -> Self {
        let buf: [u8; N] = kani::any();
        let len: usize = kani::any();
        kani::assume(len <= N);
        let mut i = 0;
        while i < N {
            let mut ok = false;
            let mut j = 0;
            while j < alphabet.len() {
                if buf[i] == alphabet[j] {
                    ok = true;
                }
                j += 1;
            }
            kani::assume(ok);
            i += 1;
        }
        SymStr { buf, len }
    }
    pub fn as_str(&self) -> &str {
        unsafe { std::str::from_utf8_unchecked(&self.buf[..self.len]) }
    }
    pub fn bytes(&self) -> &[u8] {
        &self.buf[..self.len]
    }
}

pub fn bytes_eq(a: &[u8], b: &[u8]) -> bool {
    if a.len() != b.len() {
        return false;
    }
    let mut i = 0;
    while i < a.len() {
        if a[i] != b[i] {
            return false;
        }
        i += 1;
    }
    true
}

/// `p` is `prefix` itself or extends it at a '/' boundary (empty prefix: everything).
pub fn under_prefix(prefix: &[u8], p: &[u8]) -> bool {
    if prefix.is_empty() {
        return true;
    }
    if p.len() < prefix.len() {
        return false;
    }
    let mut i = 0;
    while i < prefix.len() {
        if p[i] != prefix[i] {
            return false;
        }
        i += 1;
    }
    p.len() == prefix.len() || p[prefix.len()] == b'/'
}

// ---------------------------------------------------------------- UTF-8 ----
/// `std::str::from_utf8` restricted to inputs whose bytes are either ASCII
/// (< 0x80) or never valid anywhere in UTF-8 (>= 0xf8): on that domain a slice is
/// valid UTF-8 iff all its bytes are ASCII, so this loop coincides with the real
/// validator. Harnesses that use it assume that domain for every byte they feed
/// in. (The real validator costs ~200 s per symbolic byte under CBMC.) The error
/// value carries no information (callers only test is_err).
pub fn from_utf8_ascii_stub(v: &[u8]) -> Result<&str, std::str::Utf8Error> {
    let mut i = 0;
    while i < v.len() {
        if v[i] >= 0x80 {
            return Err(unsafe { std::mem::transmute::<[u64; 2], std::str::Utf8Error>([0u64, 0u64]) });
        }
        i += 1;
    }
    Ok(unsafe { std::str::from_utf8_unchecked(v) })
}

pub fn ascii_or_never_valid(b: u8) -> bool {
    b < 0x80 || b >= 0xf8
}

// ------------------------------------------------------------- async ----
/// Minimal executor: polls the future with a no-op waker. The futures driven here
/// run over in-memory readers/writers (tokio's `impl AsyncWrite for Vec<u8>`,
/// `impl AsyncRead for &[u8]`), which never return Pending; the poll bound makes a
/// Pending an explicit failure instead of a hang.
pub fn block_on_ready<F: std::future::Future>(f: F) -> F::Output {
    use std::task::{Context, Poll, RawWaker, RawWakerVTable, Waker};
    fn noop(_: *const ()) {}
    fn clone(p: *const ()) -> RawWaker {
        RawWaker::new(p, &VTABLE)
    }
    static VTABLE: RawWakerVTable = RawWakerVTable::new(clone, noop, noop, noop);
    let waker = unsafe { Waker::from_raw(RawWaker::new(std::ptr::null(), &VTABLE)) };
    let mut cx = Context::from_waker(&waker);
    let mut f = std::pin::pin!(f);
    let mut polls = 0;
    loop {
        if let Poll::Ready(v) = f.as_mut().poll(&mut cx) {
            return v;
        }
        polls += 1;
        assert!(polls < 3, "in-memory async I/O returned Pending");
    }
}

// ------------------------------------------------------------ Arc free ----
/// Stand-in for `Arc::drop_slow` (the "last reference gone" path: drop the value,
/// release the allocation): leaks instead. For harnesses whose claim does not
/// depend on when shared state is freed, this keeps the drop glue of everything
/// behind an `Arc` (sockets, channels, B-trees) out of the model.
pub unsafe fn arc_drop_slow_stub<T: ?Sized, A: std::alloc::Allocator>(_this: &mut std::sync::Arc<T, A>) {}
