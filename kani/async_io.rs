use super::*;
use crate::verif_common::*;

fn async_frame<const Q: usize, const B: usize>() {
    let h = any_header();
    let q: [u8; Q] = kani::any();
    let b: [u8; B] = kani::any();
    let m = Message { header: h, query: q.to_vec(), body: b.to_vec() };
    let mut out: Vec<u8> = Vec::with_capacity(64);
    let r = block_on_ready(write_message_async(&mut out, &m));
    assert!(r.is_ok());
    std::mem::forget(r);
    let hb = spec_header_bytes(&h);
    assert!(out.len() == 48 + Q + B, "async writer emitted a different number of bytes");
    let mut i = 0;
    while i < 48 {
        assert!(out[i] == hb[i], "async writer: header differs from the REPE layout");
        i += 1;
    }
    let mut j = 0;
    while j < Q {
        assert!(out[48 + j] == q[j]);
        j += 1;
    }
    let mut k = 0;
    while k < B {
        assert!(out[48 + Q + k] == b[k]);
        k += 1;
    }
    // byte-identical to the buffered route
    let v = m.to_vec();
    assert!(v.len() == out.len());
    std::mem::forget(v);
    std::mem::forget(out);
    std::mem::forget(m);
}

//@ prop: C01
//@ tier: quick
//@ clause: the async emission route (write_message_async) yields exactly 48 spec-layout header bytes, then the query, then the body, like the buffered route
//@ funcs: async_io::write_message_async; Header::encode
//@ symbolic: all 11 header fields (full width, inconsistent lengths included), query and body bytes
//@ bounds: |query|=2, |body|=3; writer = tokio's in-memory AsyncWrite for Vec<u8> (never Pending); unwind 55
//@ oracle: independent REPE v1 (offset,width) table || query || body
#[kani::proof]
#[kani::unwind(55)]
fn c01_async_write_message_q2_b3() {
    async_frame::<2, 3>();
}

// ---- C02: async readers over an in-memory reader (tokio's AsyncRead for &[u8]) ----
const ABUF: usize = 56;
fn ale64(b: &[u8; ABUF], o: usize) -> u64 {
    u64::from_le_bytes([b[o], b[o + 1], b[o + 2], b[o + 3], b[o + 4], b[o + 5], b[o + 6], b[o + 7]])
}
fn apin(d: &mut [u8; ABUF], q: u64, b: u64) {
    let qb = q.to_le_bytes();
    let bb = b.to_le_bytes();
    let mut i = 0;
    while i < 8 {
        d[24 + i] = qb[i];
        d[32 + i] = bb[i];
        i += 1;
    }
}
fn aframe_ok(d: &[u8; ABUF], eof: usize) -> bool {
    let len = ale64(d, 0) as u128;
    let q = ale64(d, 24) as u128;
    let b = ale64(d, 32) as u128;
    d[8] == 0x07 && d[9] == 0x15 && len == 48 + q + b && eof as u128 >= 48 + q + b
}

fn async_read_message<const Q: u64, const B: u64, const EOF: usize>() {
    let mut d: [u8; ABUF] = kani::any();
    apin(&mut d, Q, B);
    let mut r: &[u8] = &d[..EOF];
    let res = block_on_ready(read_message_async(&mut r));
    match &res {
        Ok(m) => {
            assert!(aframe_ok(&d, EOF), "read_message_async accepted an inconsistent or truncated frame");
            assert!(m.query.len() == Q as usize && m.body.len() == B as usize);
            let mut i = 0;
            while i < Q as usize {
                assert!(m.query[i] == d[48 + i]);
                i += 1;
            }
            let mut j = 0;
            while j < B as usize {
                assert!(m.body[j] == d[48 + Q as usize + j]);
                j += 1;
            }
            assert!(r.len() == EOF - 48 - (Q + B) as usize, "reader consumed bytes beyond the frame");
        }
        Err(_) => {}
    }
    kani::cover!(res.is_ok() || EOF < 48 + (Q + B) as usize);
    kani::cover!(res.is_err());
    std::mem::forget(res);
}

macro_rules! c02_async {
    ($name:ident, $unw:expr, $body:expr) => {
        #[kani::proof]
        #[kani::stub(std::alloc::alloc, crate::verif_common::alloc_stub)]
        #[kani::stub(std::alloc::alloc_zeroed, crate::verif_common::alloc_zeroed_stub)]
        #[kani::stub(std::alloc::realloc, crate::verif_common::realloc_stub)]
        #[kani::unwind($unw)]
        fn $name() {
            $body
        }
    };
}

//@ name: c02_async_rm_q2b3_trailing
//@ prop: C02
//@ tier: experimental
//@ clause: read_message_async on hostile bytes never panics and returns Ok only for a complete consistent frame whose query/body are the stream bytes, leaving the bytes after the frame unread
//@ funcs: async_io::read_message_async; io::try_zeroed_vec; Header::decode; Message::new
//@ symbolic: 56 stream bytes (every bit except the two declared payload lengths)
//@ bounds: query_length=2, body_length=3; stream = first 56 bytes (3 trailing); in-memory reader (never Pending); unwind 12
//@ oracle: u128 consistency predicate on the raw stream bytes
//@ stubs: std::alloc::alloc / alloc_zeroed / realloc -> null for requests >= 2^62 bytes
//@ replay: playback
c02_async!(c02_async_rm_q2b3_trailing, 12, async_read_message::<2, 3, 56>());

//@ name: c02_async_rm_q2b3_trunc1
//@ prop: C02
//@ tier: experimental
//@ clause: as c02_async_rm_q2b3_trailing: stream truncated one byte before the frame end must be an error
//@ funcs: async_io::read_message_async; io::try_zeroed_vec; Header::decode; Message::new
//@ symbolic: as c02_async_rm_q2b3_trailing
//@ bounds: query_length=2, body_length=3; stream = first 52 bytes; unwind 12
//@ oracle: Ok is impossible
//@ stubs: std::alloc::alloc / alloc_zeroed / realloc -> null for requests >= 2^62 bytes
//@ replay: playback
c02_async!(c02_async_rm_q2b3_trunc1, 12, async_read_message::<2, 3, 52>());

//@ name: c02_async_rm_unallocatable
//@ prop: C02
//@ tier: experimental
//@ clause: a header declaring a never-allocatable query or body (>= 2^62 bytes) makes read_message_async return an error: no panic, no process abort
//@ funcs: async_io::read_message_async; io::try_zeroed_vec; Header::decode
//@ symbolic: all header bits with query_length >= 2^62 (body <= 8 or >= 2^62) or query_length <= 1 and body_length >= 2^62; stream bytes
//@ bounds: 56-byte stream; allocator refuses exactly the requests >= 2^62 bytes; unwind 12
//@ oracle: result is Err
//@ stubs: std::alloc::alloc / alloc_zeroed / realloc -> null for requests >= 2^62 bytes
//@ replay: playback
c02_async!(c02_async_rm_unallocatable, 12, {
    let d: [u8; ABUF] = kani::any();
    let q = ale64(&d, 24);
    let b = ale64(&d, 32);
    kani::assume((q >= (1u64 << 62) && (b <= 8 || b >= (1u64 << 62))) || (q <= 1 && b >= (1u64 << 62)));
    let mut r: &[u8] = &d[..];
    let res = block_on_ready(read_message_async(&mut r));
    assert!(res.is_err(), "a frame that cannot exist was accepted");
    kani::cover!(d[8] == 0x07 && d[9] == 0x15 && ale64(&d, 0) == 48u64.wrapping_add(q).wrapping_add(b) && (q as u128 + b as u128) < (1u128 << 63));
    std::mem::forget(res);
});

//@ name: c02_async_rmi_overflow_class
//@ prop: C02
//@ tier: quick
//@ clause: read_message_into_async with a consistent header declaring a size beyond isize::MAX returns an error instead of panicking with "capacity overflow"
//@ funcs: async_io::read_message_into_async; io::try_reserve; Header::decode
//@ symbolic: every header bit except magic and the three (consistent) length fields; stream bytes
//@ bounds: query_length=1, body_length=2^63; 56-byte stream; unwind 50
//@ oracle: result is Err
//@ stubs: std::alloc::alloc / alloc_zeroed / realloc -> null for requests >= 2^62 bytes
//@ replay: playback
c02_async!(c02_async_rmi_overflow_class, 50, {
    let mut d: [u8; ABUF] = kani::any();
    apin(&mut d, 1, 1u64 << 63);
    let tb = (49u64 + (1u64 << 63)).to_le_bytes();
    let mut i = 0;
    while i < 8 {
        d[i] = tb[i];
        i += 1;
    }
    d[8] = 0x07;
    d[9] = 0x15;
    let mut r: &[u8] = &d[..];
    let mut buf: Vec<u8> = Vec::new();
    let res = block_on_ready(read_message_into_async(&mut r, &mut buf));
    assert!(res.is_err(), "a frame that cannot exist was accepted");
    std::mem::forget(res);
    std::mem::forget(buf);
});

//@ name: c02_async_rm_q2b0_trunc_in_query
//@ prop: C02
//@ tier: experimental
//@ timeout: 900
//@ clause: read_message_async: a stream that ends inside the query of a consistent empty-body frame is an error (never Ok with a padded query)
//@ funcs: async_io::read_message_async; io::try_zeroed_vec; Header::decode; Message::new
//@ symbolic: 49 stream bytes (every bit except the two declared payload lengths)
//@ bounds: query_length=2, body_length=0; stream = first 49 bytes (ends 1 byte into the query); in-memory reader (never Pending); unwind 12
//@ oracle: Ok is impossible
//@ stubs: none
//@ replay: playback
#[kani::proof]
#[kani::unwind(12)]
fn c02_async_rm_q2b0_trunc_in_query() {
    async_read_message::<2, 0, 49>();
}

//@ name: c02_async_rm_q2b0_exact
//@ prop: C02
//@ tier: experimental
//@ timeout: 900
//@ clause: read_message_async on hostile bytes returns Ok only for a complete consistent frame whose query is the stream's bytes (empty body), consuming exactly the frame
//@ funcs: async_io::read_message_async; io::try_zeroed_vec; Header::decode; Message::new
//@ symbolic: 50 stream bytes (every bit except the two declared payload lengths)
//@ bounds: query_length=2, body_length=0; stream = exactly 50 bytes; in-memory reader (never Pending); unwind 12
//@ oracle: u128 consistency predicate on the raw stream bytes
//@ stubs: none
//@ replay: playback
#[kani::proof]
#[kani::unwind(12)]
fn c02_async_rm_q2b0_exact() {
    async_read_message::<2, 0, 50>();
}
