use super::*;
use crate::verif_common::*;

// ===========================================================================
// C02: stream readers on hostile streams
// ===========================================================================
const SBUF: usize = 56;
const MAX_SHORT_READS: u32 = 1;

/// Symbolic `Read`: hands out `data[..eof]`, then EOF (Ok(0)). Up to
/// MAX_SHORT_READS calls return an arbitrary positive number of bytes smaller
/// than requested (at arbitrary points of the stream); all other calls fill the
/// request as far as the stream allows. Any call may instead fail with an I/O
/// error.
struct SymReader {
    data: [u8; SBUF],
    eof: usize,
    pos: usize,
    calls: u32,
    short_reads: u32,
}

impl Read for SymReader {
    fn read(&mut self, buf: &mut [u8]) -> std::io::Result<usize> {
        self.calls += 1;
        if kani::any() {
            return Err(std::io::Error::from(std::io::ErrorKind::ConnectionReset));
        }
        if self.pos >= self.eof || buf.is_empty() {
            return Ok(0);
        }
        let avail = self.eof - self.pos;
        let max = if buf.len() < avail { buf.len() } else { avail };
        let mut k = max;
        if self.short_reads < MAX_SHORT_READS && kani::any() {
            let s: usize = kani::any();
            kani::assume(s >= 1 && s <= max);
            k = s;
            self.short_reads += 1;
        }
        buf[..k].copy_from_slice(&self.data[self.pos..self.pos + k]);
        self.pos += k;
        Ok(k)
    }
}

/// Concrete-shape reader: EOF position and the size of the (single) short
/// first read are per-instance constants, so every size CBMC sees is concrete
/// (5x cheaper); stream contents stay symbolic, any call may fail.
struct ConcReader<const EOF: usize, const SPLIT: usize> {
    data: [u8; SBUF],
    pos: usize,
    calls: u32,
    fail_at: u32,
}

impl<const EOF: usize, const SPLIT: usize> Read for ConcReader<EOF, SPLIT> {
    fn read(&mut self, buf: &mut [u8]) -> std::io::Result<usize> {
        self.calls += 1;
        if self.calls == self.fail_at {
            return Err(std::io::Error::from(std::io::ErrorKind::ConnectionReset));
        }
        if self.pos >= EOF || buf.is_empty() {
            return Ok(0);
        }
        let avail = EOF - self.pos;
        let mut k = if buf.len() < avail { buf.len() } else { avail };
        if self.calls == 1 && SPLIT > 0 && SPLIT < k {
            k = SPLIT;
        }
        buf[..k].copy_from_slice(&self.data[self.pos..self.pos + k]);
        self.pos += k;
        Ok(k)
    }
}

trait Stream: Read {
    fn data(&self) -> &[u8; SBUF];
    fn data_mut(&mut self) -> &mut [u8; SBUF];
    fn eof(&self) -> usize;
    fn pos(&self) -> usize;
}
impl Stream for SymReader {
    fn data(&self) -> &[u8; SBUF] { &self.data }
    fn data_mut(&mut self) -> &mut [u8; SBUF] { &mut self.data }
    fn eof(&self) -> usize { self.eof }
    fn pos(&self) -> usize { self.pos }
}
impl<const EOF: usize, const SPLIT: usize> Stream for ConcReader<EOF, SPLIT> {
    fn data(&self) -> &[u8; SBUF] { &self.data }
    fn data_mut(&mut self) -> &mut [u8; SBUF] { &mut self.data }
    fn eof(&self) -> usize { EOF }
    fn pos(&self) -> usize { self.pos }
}
fn conc_reader<const EOF: usize, const SPLIT: usize>() -> ConcReader<EOF, SPLIT> {
    ConcReader { data: kani::any(), pos: 0, calls: 0, fail_at: kani::any() }
}

/// Pin the two declared payload lengths to per-instance constants by WRITING
/// them into the stream (an `assume` would leave them symbolic for CBMC's
/// constant propagation, and every allocation size / loop bound with them).
fn pin_lengths(d: &mut [u8; SBUF], q: u64, b: u64) {
    let qb = q.to_le_bytes();
    let bb = b.to_le_bytes();
    let mut i = 0;
    while i < 8 {
        d[24 + i] = qb[i];
        d[32 + i] = bb[i];
        i += 1;
    }
}

fn sle64(b: &[u8; SBUF], o: usize) -> u64 {
    u64::from_le_bytes([b[o], b[o + 1], b[o + 2], b[o + 3], b[o + 4], b[o + 5], b[o + 6], b[o + 7]])
}

fn sym_reader() -> SymReader {
    let r = SymReader { data: kani::any(), eof: kani::any(), pos: 0, calls: 0, short_reads: 0 };
    kani::assume(r.eof <= SBUF);
    r
}

fn stream_frame_ok(d: &[u8; SBUF], eof: usize) -> bool {
    let len = sle64(d, 0) as u128;
    let q = sle64(d, 24) as u128;
    let b = sle64(d, 32) as u128;
    d[8] == 0x07 && d[9] == 0x15 && len == 48 + q + b && eof as u128 >= 48 + q + b
}

/// Small declared sizes: Q and B are per-instance constants (a symbolic
/// allocation size exhausts memory); every other header bit and the stream
/// bytes stay symbolic.
fn check_read_message<R: Stream, const Q: u64, const B: u64>(mut r: R) {
    pin_lengths(r.data_mut(), Q, B);
    let res = read_message(&mut r);
    let d = *r.data();
    let res_ok = res.is_ok();
    match res {
        Ok(m) => {
            assert!(stream_frame_ok(&d, r.eof()), "read_message accepted an inconsistent or truncated frame");
            assert!(m.query.len() == Q as usize && m.body.len() == B as usize);
            let mut i = 0;
            while i < Q as usize {
                assert!(m.query[i] == d[48 + i]);
                i += 1;
            }
            let mut j = 0;
            while j < B as usize {
                assert!(m.body[j] == d[48 + Q as usize + j]);
                j += 1;
            }
            assert!(r.pos() == 48 + (Q + B) as usize, "reader consumed bytes beyond the frame");
            assert!(m.header.id == sle64(&d, 16));
            std::mem::forget(m);
        }
        Err(e) => {
            std::mem::forget(e);
        }
    }
    let ok = res_ok;
    kani::cover!(!ok);
    kani::cover!(ok || r.eof() < 48 + (Q + B) as usize);
}

fn check_read_message_into<R: Stream, const Q: u64, const B: u64>(mut r: R) {
    pin_lengths(r.data_mut(), Q, B);
    let mut buf: Vec<u8> = Vec::new();
    let res = read_message_into(&mut r, &mut buf);
    let d = *r.data();
    let res_ok = res.is_ok();
    match res {
        Ok(()) => {
            assert!(stream_frame_ok(&d, r.eof()), "read_message_into accepted an inconsistent or truncated frame");
            let total = 48 + (Q + B) as usize;
            assert!(buf.len() == total && r.pos() == total);
            let mut i = 0;
            while i < total {
                assert!(buf[i] == d[i], "buffer is not the frame read from the stream");
                i += 1;
            }
        }
        Err(e) => {
            std::mem::forget(e);
        }
    }
    kani::cover!(!res_ok);
    kani::cover!(res_ok || r.eof() < 48 + (Q + B) as usize);
    std::mem::forget(buf);
}

macro_rules! c02_stream {
    ($name:ident, $unw:expr, $body:expr) => {
        #[kani::proof]
        #[kani::stub(std::alloc::alloc, crate::verif_common::alloc_stub)]
        #[kani::stub(std::alloc::alloc_zeroed, crate::verif_common::alloc_zeroed_stub)]
        #[kani::stub(std::alloc::realloc, crate::verif_common::realloc_stub)]
        #[kani::unwind($unw)]
        fn $name() {
            $body
        }
    };
}

// ---- quick tier: concrete stream shapes (EOF, first short read), symbolic contents ----

//@ name: c02_rm_q2b3_exact
//@ prop: C02
//@ tier: quick
//@ clause: read_message on a hostile stream never panics and returns Ok only for a complete consistent frame whose query/body are the stream bytes
//@ funcs: io::read_message; io::read_exact; io::try_zeroed_vec; Header::decode; Message::new
//@ symbolic: 56 stream bytes (every bit except the two declared payload lengths: length/magic/id/formats/ec all arbitrary), an I/O error at any read call
//@ bounds: declared query_length=2, body_length=3; stream ends exactly at the frame end (EOF=53); reads never short; unwind 12
//@ oracle: u128 consistency predicate on the raw stream bytes; bytewise comparison
//@ stubs: std::alloc::alloc / alloc_zeroed / realloc -> null for requests >= 2^62 bytes
//@ replay: playback
c02_stream!(c02_rm_q2b3_exact, 12, check_read_message::<_, 2, 3>(conc_reader::<53, 0>()));

//@ name: c02_rm_q2b3_trunc1_split7
//@ prop: C02
//@ tier: quick
//@ clause: as c02_rm_q2b3_exact: stream truncated one byte before the frame end, header delivered in two reads (7 + 41)
//@ funcs: io::read_message; io::read_exact; io::try_zeroed_vec; Header::decode; Message::new
//@ symbolic: as c02_rm_q2b3_exact
//@ bounds: query_length=2, body_length=3; EOF=52; first read returns 7 bytes; unwind 12
//@ oracle: result must be Err unless the header is inconsistent anyway (then Err too): Ok is impossible
//@ stubs: std::alloc::alloc / alloc_zeroed / realloc -> null for requests >= 2^62 bytes
//@ replay: playback
c02_stream!(c02_rm_q2b3_trunc1_split7, 12, check_read_message::<_, 2, 3>(conc_reader::<52, 7>()));

//@ name: c02_rm_q2b3_trailing
//@ prop: C02
//@ tier: quick
//@ clause: as c02_rm_q2b3_exact: 3 bytes follow the frame; the reader must stop at the frame end
//@ funcs: io::read_message; io::read_exact; io::try_zeroed_vec; Header::decode; Message::new
//@ symbolic: as c02_rm_q2b3_exact
//@ bounds: query_length=2, body_length=3; EOF=56; first read returns 47 bytes; unwind 12
//@ oracle: u128 consistency predicate; pos == 53 on Ok
//@ stubs: std::alloc::alloc / alloc_zeroed / realloc -> null for requests >= 2^62 bytes
//@ replay: playback
c02_stream!(c02_rm_q2b3_trailing, 12, check_read_message::<_, 2, 3>(conc_reader::<56, 47>()));

//@ name: c02_rmi_q2b3_exact_split7
//@ prop: C02
//@ tier: experimental
//@ timeout: 2400
//@ clause: read_message_into on a hostile stream never panics; on Ok the buffer holds exactly the frame bytes read from the stream
//@ funcs: io::read_message_into; io::read_exact; io::try_reserve; Header::decode
//@ symbolic: as c02_rm_q2b3_exact
//@ bounds: query_length=2, body_length=3; EOF=53; first read returns 7 bytes; unwind 55 (Vec::resize(48) and the 53-byte compare)
//@ oracle: u128 consistency predicate; buf == stream[..53]
//@ stubs: std::alloc::alloc / alloc_zeroed / realloc -> null for requests >= 2^62 bytes
//@ replay: playback
c02_stream!(c02_rmi_q2b3_exact_split7, 55, check_read_message_into::<_, 2, 3>(conc_reader::<53, 7>()));

//@ name: c02_rmi_q2b3_trunc1
//@ prop: C02
//@ tier: thorough
//@ mem: high
//@ timeout: 2400
//@ clause: as c02_rmi_q2b3_exact_split7: stream truncated one byte before the frame end
//@ funcs: io::read_message_into; io::read_exact; io::try_reserve; Header::decode
//@ symbolic: as c02_rm_q2b3_exact
//@ bounds: query_length=2, body_length=3; EOF=52; unwind 55
//@ oracle: Ok is impossible
//@ stubs: std::alloc::alloc / alloc_zeroed / realloc -> null for requests >= 2^62 bytes
//@ replay: playback
c02_stream!(c02_rmi_q2b3_trunc1, 55, check_read_message_into::<_, 2, 3>(conc_reader::<52, 0>()));

// ---- thorough tier: symbolic EOF (every truncation point) and a short read of symbolic size anywhere ----

//@ name: c02_rm_q2b3_symbolic_eof
//@ prop: C02
//@ tier: thorough
//@ mem: high
//@ clause: as c02_rm_q2b3_exact, for every truncation point and every placement/size of one short read
//@ funcs: io::read_message; io::read_exact; io::try_zeroed_vec; Header::decode; Message::new
//@ symbolic: 56 stream bytes, EOF position 0..=56, one short read of arbitrary size at an arbitrary call, an I/O error at any call
//@ bounds: query_length=2, body_length=3; stream <= 56 bytes; at most 1 short read (other reads fill the request up to EOF); unwind 12
//@ oracle: u128 consistency predicate; bytewise comparison
//@ stubs: std::alloc::alloc / alloc_zeroed / realloc -> null for requests >= 2^62 bytes
//@ timeout: 1800
//@ replay: playback
c02_stream!(c02_rm_q2b3_symbolic_eof, 12, check_read_message::<_, 2, 3>(sym_reader()));

//@ name: c02_rm_q0b0_symbolic_eof
//@ prop: C02
//@ tier: thorough
//@ mem: high
//@ clause: as c02_rm_q2b3_symbolic_eof, header-only frame
//@ funcs: io::read_message; io::read_exact; io::try_zeroed_vec; Header::decode; Message::new
//@ symbolic: as c02_rm_q2b3_symbolic_eof
//@ bounds: query_length=0, body_length=0; stream <= 56 bytes; at most 1 short read; unwind 12
//@ oracle: u128 consistency predicate
//@ stubs: std::alloc::alloc / alloc_zeroed / realloc -> null for requests >= 2^62 bytes
//@ timeout: 1800
//@ replay: playback
c02_stream!(c02_rm_q0b0_symbolic_eof, 12, check_read_message::<_, 0, 0>(sym_reader()));

//@ name: c02_rm_q0b8_symbolic_eof
//@ prop: C02
//@ tier: experimental
//@ clause: as c02_rm_q2b3_symbolic_eof, empty query and 8-byte body
//@ funcs: io::read_message; io::read_exact; io::try_zeroed_vec; Header::decode; Message::new
//@ symbolic: as c02_rm_q2b3_symbolic_eof
//@ bounds: query_length=0, body_length=8; stream <= 56 bytes; at most 1 short read; unwind 12
//@ oracle: u128 consistency predicate; bytewise comparison
//@ stubs: std::alloc::alloc / alloc_zeroed / realloc -> null for requests >= 2^62 bytes
//@ timeout: 1800
//@ replay: playback
c02_stream!(c02_rm_q0b8_symbolic_eof, 12, check_read_message::<_, 0, 8>(sym_reader()));

//@ name: c02_rm_q5b0_symbolic_eof
//@ prop: C02
//@ tier: experimental
//@ clause: as c02_rm_q2b3_symbolic_eof, 5-byte query and empty body
//@ funcs: io::read_message; io::read_exact; io::try_zeroed_vec; Header::decode; Message::new
//@ symbolic: as c02_rm_q2b3_symbolic_eof
//@ bounds: query_length=5, body_length=0; stream <= 56 bytes; at most 1 short read; unwind 12
//@ oracle: u128 consistency predicate; bytewise comparison
//@ stubs: std::alloc::alloc / alloc_zeroed / realloc -> null for requests >= 2^62 bytes
//@ timeout: 1800
//@ replay: playback
c02_stream!(c02_rm_q5b0_symbolic_eof, 12, check_read_message::<_, 5, 0>(sym_reader()));

//@ name: c02_rmi_q0b0_trailing
//@ prop: C02
//@ tier: experimental
//@ clause: as c02_rmi_q2b3_exact_split7, header-only frame followed by 8 stray bytes
//@ funcs: io::read_message_into; io::read_exact; io::try_reserve; Header::decode
//@ symbolic: as c02_rm_q2b3_exact
//@ bounds: query_length=0, body_length=0; EOF=56; first read returns 13 bytes; unwind 55
//@ oracle: u128 consistency predicate; buf == stream[..48]
//@ stubs: std::alloc::alloc / alloc_zeroed / realloc -> null for requests >= 2^62 bytes
//@ replay: playback
c02_stream!(c02_rmi_q0b0_trailing, 55, check_read_message_into::<_, 0, 0>(conc_reader::<56, 13>()));

//@ name: c02_rmi_q1b7_short_header
//@ prop: C02
//@ tier: thorough
//@ mem: high
//@ clause: as c02_rmi_q2b3_exact_split7, stream ends inside the header
//@ funcs: io::read_message_into; io::read_exact; io::try_reserve; Header::decode
//@ symbolic: as c02_rm_q2b3_exact
//@ bounds: query_length=1, body_length=7; EOF=47; unwind 55
//@ oracle: Ok is impossible
//@ stubs: std::alloc::alloc / alloc_zeroed / realloc -> null for requests >= 2^62 bytes
//@ replay: playback
c02_stream!(c02_rmi_q1b7_short_header, 55, check_read_message_into::<_, 1, 7>(conc_reader::<47, 0>()));

// ---- never-allocatable declared sizes ----

/// Declared sizes >= 2^62: the reader must return an error, not panic
/// ("capacity overflow") and not abort (handle_alloc_error).
fn assume_huge(d: &[u8; SBUF]) {
    let q = sle64(d, 24);
    let b = sle64(d, 32);
    kani::assume((q >= (1u64 << 62) && (b <= 8 || b >= (1u64 << 62))) || (q <= 1 && b >= (1u64 << 62)));
}

fn cover_consistent_huge(d: &[u8; SBUF]) -> bool {
    d[8] == 0x07 && d[9] == 0x15
        && sle64(d, 0) == 48u64.wrapping_add(sle64(d, 24)).wrapping_add(sle64(d, 32))
        && (sle64(d, 24) as u128 + sle64(d, 32) as u128) < (1u128 << 63)
}

//@ name: c02_read_message_unallocatable
//@ prop: C02
//@ tier: quick
//@ timeout: 900
//@ clause: a consistent header declaring a never-allocatable query or body (>= 2^62 bytes) makes read_message return an error: no panic, no process abort
//@ funcs: io::read_message; io::try_zeroed_vec; Header::decode
//@ symbolic: all header bits with query_length >= 2^62 (body <= 8 or >= 2^62) or query_length in {0,1} and body_length >= 2^62; stream bytes; an I/O error at any call
//@ bounds: 56-byte stream, reads never short; the allocator refuses exactly the requests >= 2^62 bytes
//@ oracle: result is Err (a 56-byte stream can never hold the declared frame)
//@ stubs: std::alloc::alloc / alloc_zeroed / realloc -> null for requests >= 2^62 bytes (an infallible allocation API then reaches handle_alloc_error, reported as failure)
//@ replay: playback
c02_stream!(c02_read_message_unallocatable, 12, {
    let mut r = conc_reader::<56, 0>();
    assume_huge(&r.data);
    let res = read_message(&mut r);
    assert!(res.is_err(), "a frame that cannot exist was accepted");
    kani::cover!(r.pos == 48 && cover_consistent_huge(&r.data));
    std::mem::forget(res);
});


// ---- never-allocatable sizes, pinned per instance (quick) ----
fn check_unalloc_pinned<const Q: u64, const B: u64, const INTO: bool>() {
    let mut r = conc_reader::<56, 0>();
    pin_lengths(&mut r.data, Q, B);
    // make the header fully consistent so the reader goes on to allocate
    let total = 48u64 + Q + B; // const-evaluated: overflow would be a compile error
    let tb = total.to_le_bytes();
    let mut i = 0;
    while i < 8 {
        r.data[i] = tb[i];
        i += 1;
    }
    r.data[8] = 0x07;
    r.data[9] = 0x15;
    if INTO {
        let mut buf: Vec<u8> = Vec::new();
        let res = read_message_into(&mut r, &mut buf);
        assert!(res.is_err(), "a frame that cannot exist was accepted");
        std::mem::forget(res);
        std::mem::forget(buf);
    } else {
        let res = read_message(&mut r);
        assert!(res.is_err(), "a frame that cannot exist was accepted");
        std::mem::forget(res);
    }
    kani::cover!(r.pos == 48);
}







//@ name: c02_rmi_unalloc_q1_b2p63
//@ prop: C02
//@ tier: quick
//@ clause: a consistent header declaring a size beyond isize::MAX makes read_message_into return an error instead of panicking with "capacity overflow" (the 2^62..2^63 abort class cannot be modelled for this function: it grows an existing buffer through realloc, which Kani does not let a stub fail)
//@ funcs: io::read_message_into; io::try_zeroed_vec; io::try_reserve; Header::decode
//@ symbolic: every header bit except magic and the three (consistent) length fields; stream bytes; an I/O error at any read call
//@ bounds: query_length=1, body_length=2^63 (capacity overflow class) (per-instance constants); 56-byte stream; the allocator refuses exactly the requests >= 2^62 bytes; unwind 50
//@ oracle: result is Err (a 56-byte stream can never hold the declared frame)
//@ stubs: std::alloc::alloc / alloc_zeroed / realloc -> null for requests >= 2^62 bytes (an infallible allocation API then reaches handle_alloc_error, reported as failure)
//@ replay: playback
c02_stream!(c02_rmi_unalloc_q1_b2p63, 50, check_unalloc_pinned::<{ 1 }, { 1u64 << 63 }, true>());

//@ name: c02_rmi_unalloc_qmax_b0
//@ prop: C02
//@ tier: thorough
//@ mem: high
//@ clause: a consistent header declaring a size beyond isize::MAX makes read_message_into return an error instead of panicking with "capacity overflow" (the 2^62..2^63 abort class cannot be modelled for this function: it grows an existing buffer through realloc, which Kani does not let a stub fail)
//@ funcs: io::read_message_into; io::try_zeroed_vec; io::try_reserve; Header::decode
//@ symbolic: every header bit except magic and the three (consistent) length fields; stream bytes; an I/O error at any read call
//@ bounds: query_length=u64::MAX-48, body_length=0 (declared total = u64::MAX) (per-instance constants); 56-byte stream; the allocator refuses exactly the requests >= 2^62 bytes; unwind 50
//@ oracle: result is Err (a 56-byte stream can never hold the declared frame)
//@ stubs: std::alloc::alloc / alloc_zeroed / realloc -> null for requests >= 2^62 bytes (an infallible allocation API then reaches handle_alloc_error, reported as failure)
//@ replay: playback
c02_stream!(c02_rmi_unalloc_qmax_b0, 50, check_unalloc_pinned::<{ u64::MAX - 48 }, { 0 }, true>());

