use super::*;
use crate::verif_common::*;

static mut REPORTS: u32 = 0;
static mut REPORT_SIZE: usize = 0;
static mut REPORT_LIMIT: usize = 0;
static mut REPORT_KIND_OK: bool = true;

/// Stub for websocket_server::report_error: records the report and forgets the
/// value. (ConnectionError embeds RepeError, whose drop glue - boxed dyn errors
/// inside io/serde/beve errors - is what makes the unstubbed path run out of
/// memory; the real function is a 3-line loop over the registered hooks.)
fn report_error_stub(_hooks: &[ErrorHook], err: ConnectionError) {
    unsafe {
        REPORTS += 1;
        match &err {
            ConnectionError::OutboundTooLarge { size, limit, .. } => {
                REPORT_SIZE = *size;
                REPORT_LIMIT = *limit;
            }
            _ => REPORT_KIND_OK = false,
        }
    }
    std::mem::forget(err);
}

/// Stub for message::create_error_message inside frame_outbound: the error TEXT
/// comes from format!, whose result Kani does not model usably at this call site
/// (stubbing alloc::fmt::format is not honoured there and the unstubbed formatter
/// is out of reach), so the text is forgotten and the message is built by the
/// same builder calls with an empty body. The real create_error_message is
/// decided separately (c17_create_error_message).
fn create_error_message_stub<S: AsRef<str>>(code: ErrorCode, msg: S) -> Message {
    std::mem::forget(msg);
    Message::builder()
        .error_code(code)
        .body_bytes(Vec::new())
        .body_format(crate::constants::BodyFormat::Utf8)
        .build()
}

fn outbound_msg<const Q: usize, const B: usize>() -> (Message, [u8; Q], [u8; B]) {
    let mut h = any_header();
    h.spec = crate::constants::REPE_SPEC;
    h.query_length = Q as u64;
    h.body_length = B as u64;
    h.length = (48 + Q + B) as u64;
    let q: [u8; Q] = kani::any();
    let b: [u8; B] = kani::any();
    (Message { header: h, query: q.to_vec(), body: b.to_vec() }, q, b)
}

/// In-limit side: delivered unchanged. LIMIT is a per-instance constant
/// (usize::MAX encodes "no limit configured") so that CBMC does not have to
/// carry the oversized branch along.
fn frame_outbound_in_limit<const Q: usize, const B: usize, const LIMIT: usize>() {
    let (m, q, b) = outbound_msg::<Q, B>();
    let h = m.header;
    let limit = if LIMIT == usize::MAX { None } else { Some(LIMIT) };
    let limits = crate::WebSocketLimits::unlimited().with_assumed_peer_frame_limit(limit);
    let out = frame_outbound(m, &limits, &[]);
    let bytes = out.expect("a message at or below the limit must be delivered");
    assert!(bytes.len() == 48 + Q + B);
    let hb = spec_header_bytes(&h);
    let mut i = 0;
    while i < 48 {
        assert!(bytes[i] == hb[i], "in-limit message header changed");
        i += 1;
    }
    let mut j = 0;
    while j < Q {
        assert!(bytes[48 + j] == q[j]);
        j += 1;
    }
    let mut k = 0;
    while k < B {
        assert!(bytes[48 + Q + k] == b[k]);
        k += 1;
    }
    unsafe {
        assert!(REPORTS == 0, "an error was reported for a deliverable message");
    }
    std::mem::forget(bytes);
}

/// Oversized side, NOTIFY clause only: dropped and reported once with the exact
/// size and limit. The oversized-RESPONSE clause (replacement error with the same
/// id) could not be brought into the solver: the replacement text is built with
/// format!; the real formatter does not finish (300 s, concrete arguments), and
/// with alloc::fmt::format stubbed Kani 0.68 reports spurious memory errors on
/// this path whenever report_error is also called (a String whose capacity field
/// reads as the local `size`; the same values pass natively and every sub-step
/// passes in isolation - probes recorded in DESIGN.md). That clause is Out.
fn frame_outbound_oversized<const Q: usize, const B: usize>() {
    let (mut m, _q, _b) = outbound_msg::<Q, B>();
    // The query is only read to name the method in the report; UTF-8 validation
    // of even one symbolic byte costs minutes, so the query bytes are concrete ASCII.
    let mut k = 0;
    while k < Q {
        m.query[k] = b'/';
        k += 1;
    }
    let h = m.header;
    kani::assume(h.notify != 0);
    let limit: usize = kani::any();
    kani::assume(limit >= 48 && limit < 48 + Q + B);
    let limits = crate::WebSocketLimits::unlimited().with_assumed_peer_frame_limit(Some(limit));
    let out = frame_outbound(m, &limits, &[]);
    unsafe {
        assert!(REPORTS == 1 && REPORT_KIND_OK, "oversized outbound message was not reported exactly once as OutboundTooLarge");
        assert!(REPORT_SIZE == 48 + Q + B && REPORT_LIMIT == limit);
    }
    assert!(out.is_none(), "an oversized notify was put on the wire");
    kani::cover!(limit == 48 + Q + B - 1);
    kani::cover!(h.notify == 1);
    kani::cover!(h.notify == 255);
}

macro_rules! c17_in_limit {
    ($name:ident, $q:expr, $b:expr, $limit:expr) => {
        #[kani::proof]
        #[kani::stub(std::fmt::format, crate::verif_common::format_stub)]
        #[kani::stub(report_error, report_error_stub)]
        #[kani::unwind(52)]
        fn $name() {
            frame_outbound_in_limit::<$q, $b, { $limit }>();
        }
    };
}

//@ name: c17_frame_outbound_at_limit_q1_b2
//@ prop: C17
//@ tier: quick
//@ clause: a message exactly at the limit is delivered unchanged, byte for byte, and nothing is reported
//@ funcs: websocket_server::frame_outbound; WebSocketLimits::check_outbound; Message::into_wire_bytes
//@ symbolic: all header fields (id, notify, ec, formats, reserved), query and body bytes
//@ bounds: |query|=1, |body|=2, limit = 51 = frame size (per-instance constant); unwind 52
//@ oracle: independent layout oracle || query || body
//@ stubs: websocket_server::report_error -> recording stub; alloc::fmt::format -> empty String
c17_in_limit!(c17_frame_outbound_at_limit_q1_b2, 1, 2, 51);

//@ name: c17_frame_outbound_no_limit_q1_b2
//@ prop: C17
//@ tier: quick
//@ clause: with no limit configured every message is delivered unchanged
//@ funcs: websocket_server::frame_outbound; WebSocketLimits::check_outbound; Message::into_wire_bytes
//@ symbolic: as c17_frame_outbound_at_limit_q1_b2
//@ bounds: |query|=1, |body|=2, limit = None; unwind 52
//@ oracle: independent layout oracle || query || body
//@ stubs: websocket_server::report_error -> recording stub; alloc::fmt::format -> empty String
c17_in_limit!(c17_frame_outbound_no_limit_q1_b2, 1, 2, usize::MAX);

//@ name: c17_frame_outbound_below_limit_q0_b3
//@ prop: C17
//@ tier: thorough
//@ clause: a message below the limit is delivered unchanged (empty query)
//@ funcs: websocket_server::frame_outbound; WebSocketLimits::check_outbound; Message::into_wire_bytes
//@ symbolic: as c17_frame_outbound_at_limit_q1_b2
//@ bounds: |query|=0, |body|=3, limit = 52 (frame 51); unwind 52
//@ oracle: independent layout oracle || body
//@ stubs: websocket_server::report_error -> recording stub; alloc::fmt::format -> empty String
c17_in_limit!(c17_frame_outbound_below_limit_q0_b3, 0, 3, 52);

//@ prop: C17
//@ tier: quick
//@ clause: an oversized notification is dropped (nothing goes on the wire) and reported exactly once with the exact size and limit
//@ funcs: websocket_server::frame_outbound; WebSocketLimits::check_outbound; message::create_error_message; Message::into_wire_bytes
//@ symbolic: limit in [48, frame size) ("large enough to carry an error reply" with the stubbed, empty error text), so limit = frame-1, frame-2, frame-3 are all inside; all header fields, notify any non-zero byte; body bytes; the query is concrete ASCII ('/' repeated): UTF-8 validation of symbolic bytes is out of reach here
//@ bounds: |query|=1, |body|=2; unwind 52; the oversized-RESPONSE replacement clause is outside (see the comment on frame_outbound_oversized)
//@ oracle: result None; report counter == 1 with (size, limit) == (frame size, limit)
//@ stubs: websocket_server::report_error -> recording stub (the real one loops over the registered hooks); message::create_error_message -> same builder calls with the (format!-produced) text forgotten; alloc::fmt::format -> stub (its result is forgotten unread)
#[kani::proof]
#[kani::stub(std::fmt::format, crate::verif_common::format_stub)]
#[kani::stub(crate::message::create_error_message, create_error_message_stub)]
#[kani::stub(report_error, report_error_stub)]
#[kani::unwind(52)]
fn c17_frame_outbound_oversized_notify_q1_b2() {
    frame_outbound_oversized::<1, 2>();
}

//@ prop: C17
//@ tier: thorough
//@ clause: as c17_frame_outbound_oversized_notify_q1_b2 with a 2-byte query
//@ funcs: websocket_server::frame_outbound; WebSocketLimits::check_outbound; message::create_error_message; Message::into_wire_bytes
//@ symbolic: as c17_frame_outbound_oversized_notify_q1_b2
//@ bounds: |query|=2, |body|=1; unwind 52
//@ oracle: statement clauses
//@ stubs: websocket_server::report_error -> recording stub; message::create_error_message -> builder calls, text forgotten; alloc::fmt::format -> stub (result forgotten unread)
#[kani::proof]
#[kani::stub(std::fmt::format, crate::verif_common::format_stub)]
#[kani::stub(crate::message::create_error_message, create_error_message_stub)]
#[kani::stub(report_error, report_error_stub)]
#[kani::unwind(52)]
fn c17_frame_outbound_oversized_notify_q2_b1() {
    frame_outbound_oversized::<2, 1>();
}

//@ prop: C17
//@ tier: quick
//@ clause: vacuity witness (must FAIL)
//@ funcs: websocket_server::frame_outbound
//@ expect: fail
//@ stubs: websocket_server::report_error -> recording stub; message::create_error_message -> builder calls, text forgotten; alloc::fmt::format -> stub (result forgotten unread)
#[kani::proof]
#[kani::stub(std::fmt::format, crate::verif_common::format_stub)]
#[kani::stub(crate::message::create_error_message, create_error_message_stub)]
#[kani::stub(report_error, report_error_stub)]
#[kani::unwind(52)]
fn c17_witness() {
    let (mut m, _q, _b) = outbound_msg::<1, 2>();
    m.query[0] = b'/';
    kani::assume(m.header.notify != 0);
    let limits = crate::WebSocketLimits::unlimited().with_assumed_peer_frame_limit(Some(50));
    let out = frame_outbound(m, &limits, &[]);
    assert!(out.is_some(), "verif-witness");
    std::mem::forget(out);
}



//@ prop: C17
//@ tier: quick
//@ clause: the error-reply constructor used for the replacement yields a well-formed non-notify message with exactly the given code and text (complements the oversized harnesses, which stub it)
//@ funcs: message::create_error_message; MessageBuilder::build
//@ symbolic: error code (selector over all 11 codes), 2 text bytes (ASCII)
//@ bounds: text of 2 bytes
//@ oracle: ec == code; body == text; notify == 0; header lengths consistent; body_format Utf8
#[kani::proof]
#[kani::unwind(8)]
fn c17_create_error_message() {
    let code = match kani::any::<u8>() % 11 {
        0 => ErrorCode::Ok,
        1 => ErrorCode::VersionMismatch,
        2 => ErrorCode::InvalidHeader,
        3 => ErrorCode::InvalidQuery,
        4 => ErrorCode::InvalidBody,
        5 => ErrorCode::ParseError,
        6 => ErrorCode::MethodNotFound,
        7 => ErrorCode::Timeout,
        8 => ErrorCode::ResourceExhausted,
        9 => ErrorCode::InternalError,
        _ => ErrorCode::ApplicationErrorBase,
    };
    let t: [u8; 2] = kani::any();
    kani::assume(t[0] < 128 && t[1] < 128);
    let text = unsafe { std::str::from_utf8_unchecked(&t) };
    let m = crate::message::create_error_message(code, text);
    assert!(m.header.ec == code as u32 && m.header.notify == 0 && m.header.id == 0);
    assert!(m.header.body_format == crate::constants::BodyFormat::Utf8 as u16);
    assert!(m.query.is_empty() && m.body.len() == 2 && m.body[0] == t[0] && m.body[1] == t[1]);
    assert!(m.header.length == 50 && m.header.query_length == 0 && m.header.body_length == 2);
    assert!(m.header.spec == 0x1507 && m.header.version == 1);
    std::mem::forget(m);
}

