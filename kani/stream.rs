use super::*;
use crate::verif_common::*;

// ---------------------------------------------------------------------------
// Symbolic pre-state: ANY TransferControl state satisfying the representation
// invariant acked <= sent (window, file index, offsets over the full 64/32-bit
// range). Every such state is reachable through the public API
// (advance_to_file(f); record_sent(s); record_ack(f, a); [cancel]; [resume]),
// so no spurious pre-states are introduced; one arbitrary operation from every
// such state covers histories of any length (inductive step).
// ---------------------------------------------------------------------------
struct Pre {
    window: u64,
    sent: u64,
    acked: u64,
    file: u32,
    cancelled: bool,
    pending: Option<u64>,
}

fn any_pre() -> Pre {
    clock_init();
    let p = Pre {
        window: kani::any(),
        sent: kani::any(),
        acked: kani::any(),
        file: kani::any(),
        cancelled: kani::any(),
        pending: if kani::any() { Some(kani::any()) } else { None },
    };
    kani::assume(p.acked <= p.sent);
    p
}

const FIRST: &str = "r1";

fn mk_with_ring(p: &Pre, ring: ReplayRing) -> TransferControl {
    let t0 = instant_at(0);
    TransferControl {
        inner: Mutex::new(TransferControlInner {
            window_bytes: p.window,
            sent_offset: p.sent,
            acked_offset: p.acked,
            current_file_index: p.file,
            cancelled: if p.cancelled { Some(String::from(FIRST)) } else { None },
            last_chunk_at: t0,
            last_ack_at: t0,
            replay: ring,
            peer: None,
            pending_resume: p.pending.map(|o| PendingResume { resume_at_offset: o }),
        }),
        cv: Condvar::new(),
    }
}

fn mk(p: &Pre) -> TransferControl {
    mk_with_ring(p, ReplayRing::new(kani::any()))
}

struct NullSink;
impl crate::peer::PeerSink for NullSink {
    fn send_notify(&self, _m: &str, _b: crate::peer::NotifyBody) -> Result<(), crate::peer::PeerSendError> {
        Ok(())
    }
}
fn a_peer() -> PeerHandle {
    PeerHandle::new(crate::peer::PeerId(7), Arc::new(NullSink))
}

fn reason_is(tc: &TransferControl, want: &str) -> bool {
    match tc.cancel_reason() {
        Some(s) => s.as_bytes() == want.as_bytes(),
        None => false,
    }
}

fn wait_timeout_unreachable<'a, T>(
    _cv: &Condvar,
    _g: std::sync::MutexGuard<'a, T>,
    _d: Duration,
) -> std::sync::LockResult<(std::sync::MutexGuard<'a, T>, std::sync::WaitTimeoutResult)> {
    panic!("C11 harnesses use an expired deadline: Condvar::wait_timeout must not be reached");
}

//@ prop: C11
//@ tier: quick
//@ clause: acked never exceeds sent; an ack for another file or at/below acked releases nothing; an accepted ack moves acked to min(offset, sent); sent untouched
//@ funcs: TransferControl::record_ack; TransferControl::offsets; TransferControl::is_cancelled
//@ symbolic: pre-state (window, sent, acked<=sent, file index, cancelled?, pending resume?) and both arguments, all full width (hostile acks u64::MAX / wrong file / future offsets are just values)
//@ bounds: one operation from an arbitrary invariant state (inductive step); loop-free
//@ oracle: closed-form post-state from the property statement
//@ stubs: Instant::now -> symbolic monotone clock; Condvar::notify_all -> counter
//@ replay: playback
#[kani::proof]
#[kani::stub(std::time::Instant::now, crate::verif_common::now_stub)]
#[kani::stub(std::sync::Condvar::notify_all, crate::verif_common::notify_all_stub)]
#[kani::unwind(4)]
fn c11_record_ack_step() {
    let p = any_pre();
    let tc = mk(&p);
    let f: u32 = kani::any();
    let off: u64 = kani::any();
    tc.record_ack(f, off);
    let (s, a) = tc.offsets();
    assert!(s == p.sent, "record_ack changed sent_offset");
    assert!(a <= s, "acked exceeds sent");
    assert!(a >= p.acked, "acked moved backwards");
    let capped = if off < p.sent { off } else { p.sent };
    if f != p.file || capped <= p.acked {
        assert!(a == p.acked, "stale / foreign ack released credit");
    } else {
        assert!(a == capped, "accepted ack did not move acked to min(offset, sent)");
    }
    assert!(tc.is_cancelled() == p.cancelled);
    kani::cover!(f == p.file && off == u64::MAX && a == p.sent && p.sent > p.acked);
    kani::cover!(f != p.file && off > p.acked);
    std::mem::forget(tc);
}

//@ prop: C11
//@ tier: quick
//@ clause: sent is monotone under record_sent and acked is untouched by it
//@ funcs: TransferControl::record_sent; TransferControl::offsets
//@ symbolic: pre-state and the new offset, full width
//@ bounds: one operation from an arbitrary invariant state
//@ oracle: sent' == max(sent, new); acked' == acked
//@ stubs: Instant::now -> symbolic monotone clock
//@ replay: playback
#[kani::proof]
#[kani::stub(std::time::Instant::now, crate::verif_common::now_stub)]
#[kani::unwind(4)]
fn c11_record_sent_step() {
    let p = any_pre();
    let tc = mk(&p);
    let n: u64 = kani::any();
    tc.record_sent(n);
    let (s, a) = tc.offsets();
    assert!(s == if n > p.sent { n } else { p.sent });
    assert!(a == p.acked && a <= s);
    assert!(tc.is_cancelled() == p.cancelled);
    kani::cover!(n < p.sent);
    kani::cover!(n > p.sent);
    std::mem::forget(tc);
}

//@ prop: C11
//@ tier: quick
//@ clause: credit is granted iff not cancelled and (nothing in flight or in-flight + chunk fits the window); cancelled waits report the cancel; otherwise an expired deadline yields Timeout
//@ funcs: TransferControl::wait_for_credit
//@ symbolic: pre-state full width; chunk_len <= 2^48 (the property's bound)
//@ bounds: expired deadline so the wait loop body runs once (Condvar::wait_timeout stubbed to panic = proven unreachable)
//@ oracle: in_flight + chunk <= window evaluated in u128
//@ stubs: Instant::now -> symbolic monotone clock; Condvar::wait_timeout -> unreachable
//@ replay: playback
#[kani::proof]
#[kani::stub(std::time::Instant::now, crate::verif_common::now_stub)]
#[kani::stub(std::sync::Condvar::wait_timeout, wait_timeout_unreachable)]
#[kani::unwind(4)]
fn c11_wait_for_credit_predicate() {
    let p = any_pre();
    let tc = mk(&p);
    let chunk: u64 = kani::any();
    kani::assume(chunk <= (1u64 << 48));
    let r = tc.wait_for_credit(chunk, instant_at(0));
    let in_flight = (p.sent - p.acked) as u128;
    let fits = in_flight == 0 || in_flight + chunk as u128 <= p.window as u128;
    match r {
        Ok(()) => {
            assert!(!p.cancelled, "credit granted on a cancelled transfer");
            assert!(fits, "credit granted although in-flight + chunk exceeds the window");
        }
        Err(CreditError::Cancelled(s)) => {
            assert!(p.cancelled);
            assert!(s.as_bytes() == FIRST.as_bytes());
        }
        Err(CreditError::Timeout) => {
            assert!(!p.cancelled);
            assert!(!fits, "credit refused although it fits");
        }
    }
    let (s, a) = tc.offsets();
    assert!(s == p.sent && a == p.acked);
    kani::cover!(!p.cancelled && fits && in_flight > 0);
    kani::cover!(!p.cancelled && !fits && in_flight + chunk as u128 > u64::MAX as u128);
    kani::cover!(!p.cancelled && in_flight == 0 && chunk > p.window);
    std::mem::forget(tc);
}

//@ prop: C11
//@ tier: quick
//@ clause: a producer following the documented loop (wait_for_credit Ok, then record_sent(sent+chunk)) never has more than one window, or one oversized chunk, unacknowledged
//@ funcs: TransferControl::wait_for_credit; TransferControl::record_sent; TransferControl::offsets
//@ symbolic: pre-state full width; chunk_len <= 2^48; sent + chunk assumed not to overflow u64 (documented producer contract)
//@ bounds: one loop iteration from an arbitrary invariant state (inductive step)
//@ oracle: in_flight' <= window or (in_flight' == chunk and nothing was in flight)
//@ stubs: Instant::now -> symbolic monotone clock; Condvar::wait_timeout -> unreachable
//@ replay: playback
#[kani::proof]
#[kani::stub(std::time::Instant::now, crate::verif_common::now_stub)]
#[kani::stub(std::sync::Condvar::wait_timeout, wait_timeout_unreachable)]
#[kani::unwind(4)]
fn c11_producer_loop_step() {
    let p = any_pre();
    let tc = mk(&p);
    let chunk: u64 = kani::any();
    kani::assume(chunk <= (1u64 << 48));
    kani::assume(p.sent <= u64::MAX - chunk);
    if tc.wait_for_credit(chunk, instant_at(0)).is_ok() {
        tc.record_sent(p.sent + chunk);
        let (s, a) = tc.offsets();
        let inflight = s - a;
        assert!(inflight <= p.window || (inflight == chunk && p.sent == p.acked),
            "more than one window (or one oversized chunk) unacknowledged");
        kani::cover!(inflight > p.window);
        kani::cover!(inflight == p.window && chunk > 0 && p.sent > p.acked);
    }
    std::mem::forget(tc);
}

//@ prop: C11, C13
//@ tier: quick
//@ clause: cancellation is permanent and its first reason wins; every later credit or reconnect wait reports it; a resume is refused; offsets untouched
//@ funcs: TransferControl::cancel; cancel_reason; is_cancelled; wait_for_credit; wait_for_reconnect; request_resume
//@ symbolic: pre-state full width (already cancelled or not); chunk, resume file/offset arbitrary
//@ bounds: two cancels with distinct reasons then one of each observer; reasons are 2-byte strings; unwind 4 covers the byte compares
//@ oracle: reason == first reason ever given
//@ stubs: Instant::now -> symbolic monotone clock; Condvar::notify_all -> counter; Condvar::wait_timeout -> unreachable
//@ replay: playback
#[kani::proof]
#[kani::stub(std::time::Instant::now, crate::verif_common::now_stub)]
#[kani::stub(std::sync::Condvar::notify_all, crate::verif_common::notify_all_stub)]
#[kani::stub(std::sync::Condvar::wait_timeout, wait_timeout_unreachable)]
#[kani::unwind(4)]
fn c11_cancel_sticky_first_reason() {
    let p = any_pre();
    let tc = mk(&p);
    tc.cancel("r2");
    tc.cancel("r3");
    let want = if p.cancelled { FIRST } else { "r2" };
    assert!(tc.is_cancelled());
    assert!(reason_is(&tc, want), "first cancel reason did not win");
    match tc.wait_for_credit(kani::any(), instant_at(0)) {
        Err(CreditError::Cancelled(s)) => assert!(s.as_bytes() == want.as_bytes()),
        _ => panic!("credit wait after cancel did not report the cancel"),
    }
    match tc.wait_for_reconnect(Duration::from_secs(0)) {
        ReconnectOutcome::Cancelled(s) => assert!(s.as_bytes() == want.as_bytes()),
        _ => panic!("reconnect wait after cancel did not report the cancel"),
    }
    let r = tc.request_resume(a_peer(), kani::any(), kani::any());
    assert!(r == Err(ResumeRejection::Cancelled), "resume accepted after cancel");
    // later operations cannot un-cancel
    tc.record_ack(kani::any(), kani::any());
    tc.advance_to_file(kani::any());
    assert!(reason_is(&tc, want));
    std::mem::forget(tc);
}

//@ prop: C11
//@ tier: quick
//@ clause: advance_to_file resets both offsets to zero, switches the file index and discards a pending resume; cancel state preserved
//@ funcs: TransferControl::advance_to_file; offsets; wait_for_reconnect; record_ack
//@ symbolic: pre-state full width, next file index, a follow-up ack for the OLD file index
//@ bounds: one advance then observers
//@ oracle: (0,0); reconnect wait with zero timeout returns Timeout (not ResumeReady) unless cancelled; old-file ack releases nothing
//@ stubs: Instant::now -> symbolic monotone clock; Condvar::notify_all -> counter; Condvar::wait_timeout -> unreachable
//@ replay: playback
#[kani::proof]
#[kani::stub(std::time::Instant::now, crate::verif_common::now_stub)]
#[kani::stub(std::sync::Condvar::notify_all, crate::verif_common::notify_all_stub)]
#[kani::stub(std::sync::Condvar::wait_timeout, wait_timeout_unreachable)]
#[kani::unwind(4)]
fn c11_advance_step() {
    let p = any_pre();
    let tc = mk(&p);
    let next: u32 = kani::any();
    tc.advance_to_file(next);
    assert!(tc.offsets() == (0, 0));
    assert!(tc.is_cancelled() == p.cancelled);
    match tc.wait_for_reconnect(Duration::from_secs(0)) {
        ReconnectOutcome::ResumeReady(_) => panic!("pending resume survived a file advance"),
        ReconnectOutcome::Cancelled(_) => assert!(p.cancelled),
        ReconnectOutcome::Timeout => assert!(!p.cancelled),
    }
    // ack after advance, for the old file: must be ignored
    tc.record_sent(kani::any());
    let (s1, _) = tc.offsets();
    let oldf: u32 = kani::any();
    kani::assume(oldf != next);
    tc.record_ack(oldf, kani::any());
    assert!(tc.offsets() == (s1, 0), "ack for the previous file released credit after advance");
    std::mem::forget(tc);
}

//@ prop: C11
//@ tier: quick
//@ clause: a resume moves acked only forward, never beyond sent, and only when accepted; a refused resume changes nothing
//@ funcs: TransferControl::request_resume; ReplayRing::covers; offsets
//@ symbolic: pre-state full width; ring is empty or holds one chunk with symbolic offset/data_len; resume file/offset arbitrary
//@ bounds: ring of <= 1 chunk (ring semantics proper are C13); one operation
//@ oracle: accepted => acked' == (acked < off <= sent ? off : acked); refused => offsets unchanged
//@ stubs: Instant::now -> symbolic monotone clock; Condvar::notify_all -> counter
//@ replay: playback
#[kani::proof]
#[kani::stub(std::time::Instant::now, crate::verif_common::now_stub)]
#[kani::stub(std::sync::Condvar::notify_all, crate::verif_common::notify_all_stub)]
#[kani::unwind(4)]
fn c11_resume_ack_bump() {
    let p = any_pre();
    let mut ring = ReplayRing::new(kani::any());
    if kani::any() {
        let o: u64 = kani::any();
        let dl: u64 = kani::any();
        kani::assume(o <= u64::MAX - dl);
        ring.push(o, dl, false, vec![1u8]);
    }
    let tc = mk_with_ring(&p, ring);
    let f: u32 = kani::any();
    let off: u64 = kani::any();
    let r = tc.request_resume(a_peer(), f, off);
    let (s, a) = tc.offsets();
    assert!(s == p.sent && a <= s);
    match r {
        Ok(o) => {
            assert!(o == off && !p.cancelled && f == p.file);
            let want = if off > p.acked && off <= p.sent { off } else { p.acked };
            assert!(a == want);
            kani::cover!(a > p.acked);
        }
        Err(_) => assert!(a == p.acked, "refused resume changed acked"),
    }
    std::mem::forget(tc);
}

//@ prop: C11
//@ tier: quick
//@ clause: vacuity witness for the flow-control family (must FAIL)
//@ funcs: TransferControl::record_ack
//@ expect: fail
//@ stubs: Instant::now -> symbolic monotone clock; Condvar::notify_all -> counter
//@ replay: playback
#[kani::proof]
#[kani::stub(std::time::Instant::now, crate::verif_common::now_stub)]
#[kani::stub(std::sync::Condvar::notify_all, crate::verif_common::notify_all_stub)]
#[kani::unwind(4)]
fn c11_witness() {
    let p = any_pre();
    let tc = mk(&p);
    tc.record_ack(p.file, kani::any());
    let (_, a) = tc.offsets();
    assert!(a == p.acked, "verif-witness");
    std::mem::forget(tc);
}

// ===========================================================================
// C13: replay ring and resume
// ===========================================================================

/// What the harness pushed (the "originally sent" record the oracle uses).
struct Pushed {
    off: [u64; 3],
    dlen: [u64; 3],
    last: [bool; 3],
    wire: [u8; 3], // wire length selector 0..=2
    a: [u8; 3],
    b: [u8; 3],
}

fn any_pushed() -> Pushed {
    let o0: u64 = kani::any();
    let d: [u64; 3] = kani::any();
    // documented producer contract: logical offsets do not overflow u64
    kani::assume((o0 as u128) + (d[0] as u128) + (d[1] as u128) + (d[2] as u128) <= u64::MAX as u128);
    let wire: [u8; 3] = kani::any();
    kani::assume(wire[0] <= 2 && wire[1] <= 2 && wire[2] <= 2);
    Pushed {
        off: [o0, o0 + d[0], o0 + d[0] + d[1]],
        dlen: d,
        last: kani::any(),
        wire,
        a: kani::any(),
        b: kani::any(),
    }
}

fn body_of(p: &Pushed, k: usize) -> Vec<u8> {
    match p.wire[k] {
        0 => Vec::new(),
        1 => vec![p.a[k]],
        _ => vec![p.a[k], p.b[k]],
    }
}

fn body_matches(p: &Pushed, k: usize, body: &[u8]) -> bool {
    match p.wire[k] {
        0 => body.is_empty(),
        1 => body.len() == 1 && body[0] == p.a[k],
        _ => body.len() == 2 && body[0] == p.a[k] && body[1] == p.b[k],
    }
}

/// Reference eviction model written from the property statement: keep the most
/// recent chunk always; otherwise evict oldest first until the wire bytes fit.
/// Returns the index of the first retained chunk after `n` pushes.
fn ref_first_retained(p: &Pushed, n: usize, cap: u64) -> usize {
    let mut start = 0usize;
    let mut held = 0u64;
    let mut k = 0usize;
    while k < n {
        held += p.wire[k] as u64;
        while held > cap && k > start {
            held -= p.wire[start] as u64;
            start += 1;
        }
        k += 1;
    }
    start
}

fn ring_push_n<const N: usize>() {
    let p = any_pushed();
    let cap: u64 = kani::any();
    let mut ring = ReplayRing::new(cap);
    let mut k = 0;
    while k < N {
        ring.push(p.off[k], p.dlen[k], p.last[k], body_of(&p, k));
        k += 1;
    }
    // representation invariant after N pushes (N-1 = arbitrary reachable pre-state, N-th = the step)
    let start = ref_first_retained(&p, N, cap);
    let len = ring.chunks.len();
    assert!(len >= 1 && len == N - start, "retained run is not the oldest-first-evicted suffix");
    let mut sum = 0u64;
    let mut i = 0;
    while i < len {
        let c = &ring.chunks[i];
        let src = start + i;
        assert!(c.offset == p.off[src] && c.data_len == p.dlen[src] && c.last == p.last[src],
            "retained chunk differs from what was pushed");
        assert!(body_matches(&p, src, &c.body_bytes), "retained body differs from what was pushed");
        if i + 1 < len {
            assert!(ring.chunks[i + 1].offset == c.offset + c.data_len, "ring not contiguous");
        }
        sum += c.body_bytes.len() as u64;
        i += 1;
    }
    assert!(ring.bytes_held == sum, "bytes_held out of sync with the retained wire bytes");
    assert!(sum <= cap || len == 1, "ring holds more than its capacity");
    assert!(ring.chunks[len - 1].offset == p.off[N - 1], "most recent chunk not retained");
    assert!(ring.highest_end_offset() == Some(p.off[N - 1] + p.dlen[N - 1]));
    kani::cover!(len == 1);
    kani::cover!(len == N);
    std::mem::forget(ring);
}

//@ prop: C13
//@ tier: quick
//@ clause: buffer always retains the most recent chunk, otherwise never holds more than its byte capacity (wire bytes), evicting oldest first; retained chunks are byte-identical to what was pushed and contiguous
//@ funcs: ReplayRing::new; ReplayRing::push; ReplayRing::highest_end_offset
//@ symbolic: capacity (full u64), start offset and logical lengths (full u64, no overflow), wire length 0..=2 per chunk independent of the logical length, body bytes, last flags
//@ bounds: histories of 1 push from empty
//@ oracle: reference eviction model from the statement + field-by-field comparison with the pushed record
#[kani::proof]
#[kani::unwind(5)]
fn c13_ring_push_1() {
    ring_push_n::<1>();
}

//@ prop: C13
//@ tier: quick
//@ clause: as c13_ring_push_1
//@ funcs: ReplayRing::new; ReplayRing::push; ReplayRing::highest_end_offset
//@ symbolic: as c13_ring_push_1
//@ bounds: histories of 2 pushes from empty (every eviction outcome)
//@ oracle: reference eviction model + comparison with the pushed record
#[kani::proof]
#[kani::unwind(5)]
fn c13_ring_push_2() {
    ring_push_n::<2>();
}

//@ prop: C13
//@ tier: thorough
//@ clause: as c13_ring_push_1
//@ funcs: ReplayRing::new; ReplayRing::push; ReplayRing::highest_end_offset
//@ symbolic: as c13_ring_push_1
//@ bounds: histories of 3 pushes from empty (every eviction outcome, incl. double eviction in one push)
//@ oracle: reference eviction model + comparison with the pushed record
#[kani::proof]
#[kani::unwind(5)]
fn c13_ring_push_3() {
    ring_push_n::<3>();
}

struct IdSink;
impl crate::peer::PeerSink for IdSink {
    fn send_notify(&self, _m: &str, _b: crate::peer::NotifyBody) -> Result<(), crate::peer::PeerSendError> {
        Ok(())
    }
}

fn resume_n<const N: usize>() {
    let p = any_pushed();
    let cap: u64 = kani::any();
    // (the control may already hold a staged resume the producer has not consumed:
    // a flapping link sends a second resume before the first is picked up)
    let pre = any_pre();
    let tc = mk_with_ring(&pre, ReplayRing::new(cap));
    let mut k = 0;
    while k < N {
        tc.push_replay(p.off[k], p.dlen[k], p.last[k], body_of(&p, k));
        k += 1;
    }
    let f: u32 = kani::any();
    let off: u64 = kani::any();
    let start = ref_first_retained(&p, N, cap);
    // acceptance predicate from the statement
    let mut boundary = false;
    if N == 0 {
        boundary = off == 0;
    } else {
        let mut i = start;
        while i < N {
            if p.off[i] == off {
                boundary = true;
            }
            i += 1;
        }
        if off == p.off[N - 1] + p.dlen[N - 1] {
            boundary = true;
        }
    }
    let should_accept = f == pre.file && !pre.cancelled && boundary;
    let r = tc.request_resume(PeerHandle::new(crate::peer::PeerId(42), Arc::new(IdSink)), f, off);
    match r {
        Ok(o) => {
            assert!(should_accept, "resume accepted outside the acceptance predicate");
            assert!(o == off);
            assert!(tc.peer().map(|h| h.peer_id()) == Some(crate::peer::PeerId(42)), "accepted resume did not install the new peer");
            // gapless tail, byte-identical, up to the last byte emitted
            let tail = tc.replay_chunks_from(off);
            let mut first = N; // first retained index with offset >= off
            let mut i = N;
            while i > start {
                i -= 1;
                if p.off[i] >= off {
                    first = i;
                }
            }
            assert!(tail.len() == N - first, "replay tail has the wrong number of chunks");
            if tail.len() > 0 {
                assert!(tail[0].offset == off, "replay tail does not start exactly at the resume offset");
            } else {
                assert!(N == 0 || off == p.off[N - 1] + p.dlen[N - 1]);
            }
            let mut j = 0;
            while j < tail.len() {
                let src = first + j;
                assert!(tail[j].offset == p.off[src] && tail[j].data_len == p.dlen[src] && tail[j].last == p.last[src]);
                assert!(body_matches(&p, src, &tail[j].body_bytes), "replayed body differs from what was sent");
                j += 1;
            }
            // the staged resume is delivered exactly once
            match tc.wait_for_reconnect(Duration::from_secs(0)) {
                ReconnectOutcome::ResumeReady(pr) => assert!(pr.resume_at_offset == off, "the producer is told to replay from another offset than the accepted one"),
                _ => panic!("accepted resume was not delivered to the producer"),
            }
            match tc.wait_for_reconnect(Duration::from_secs(0)) {
                ReconnectOutcome::Timeout => {}
                _ => panic!("resume delivered twice"),
            }
            kani::cover!(tail.len() == N);
            kani::cover!(pre.pending.is_some());
            kani::cover!(tail.len() == 0);
            std::mem::forget(tail);
        }
        Err(e) => {
            assert!(!should_accept, "resume refused although it meets the acceptance predicate");
            match e {
                ResumeRejection::Cancelled => assert!(pre.cancelled),
                ResumeRejection::WrongFileIndex { requested, current } => {
                    assert!(!pre.cancelled && f != pre.file && requested == f && current == pre.file)
                }
                ResumeRejection::OutOfWindow => assert!(!pre.cancelled && f == pre.file && !boundary),
            }
            // a refused resume changes nothing
            assert!(tc.peer().is_none(), "refused resume replaced the producer's peer");
            assert!(tc.offsets() == (pre.sent, pre.acked));
            match tc.wait_for_reconnect(Duration::from_secs(0)) {
                ReconnectOutcome::ResumeReady(pr) => {
                    assert!(!pre.cancelled && pre.pending == Some(pr.resume_at_offset), "refused resume was staged")
                }
                ReconnectOutcome::Cancelled(_) => assert!(pre.cancelled),
                ReconnectOutcome::Timeout => assert!(!pre.cancelled && pre.pending.is_none()),
            }
            kani::cover!(!pre.cancelled && f == pre.file);
        }
    }
    std::mem::forget(tc);
}

macro_rules! c13_resume {
    ($name:ident, $n:expr) => {
        #[kani::proof]
        #[kani::stub(std::time::Instant::now, crate::verif_common::now_stub)]
        #[kani::stub(std::sync::Condvar::notify_all, crate::verif_common::notify_all_stub)]
        #[kani::stub(std::sync::Condvar::wait_timeout, wait_timeout_unreachable)]
        #[kani::unwind(5)]
        fn $name() {
            resume_n::<$n>();
        }
    };
}

//@ name: c13_resume_n0
//@ prop: C13
//@ tier: quick
//@ clause: resume accepted only for the current file, before cancellation, at zero on an empty buffer; refused resume changes nothing; accepted resume installs the peer and is delivered exactly once
//@ funcs: TransferControl::request_resume; ReplayRing::covers; replay_chunks_from; wait_for_reconnect; peer; offsets
//@ symbolic: control state (window, sent, acked<=sent, file, cancelled?), capacity, resume file index and offset, all full width
//@ bounds: empty ring
//@ oracle: acceptance predicate and tail from the statement
//@ stubs: Instant::now -> symbolic monotone clock; Condvar::notify_all -> counter; Condvar::wait_timeout -> unreachable
//@ replay: playback
c13_resume!(c13_resume_n0, 0);

//@ name: c13_resume_n1
//@ prop: C13
//@ tier: quick
//@ clause: as c13_resume_n0 plus: accepted at a retained chunk boundary or the trailing edge; replay starts exactly at the offset, byte-identical, up to the last byte emitted
//@ funcs: TransferControl::push_replay; request_resume; ReplayRing::push; ReplayRing::covers; ReplayRing::replay_from; wait_for_reconnect; peer; offsets
//@ symbolic: as c13_resume_n0 plus chunk offsets/logical lengths (full u64), wire length 0..=2, body bytes
//@ bounds: ring built by 1 push
//@ oracle: reference eviction model + acceptance predicate and tail from the statement
//@ stubs: Instant::now -> symbolic monotone clock; Condvar::notify_all -> counter; Condvar::wait_timeout -> unreachable
//@ replay: playback
c13_resume!(c13_resume_n1, 1);

//@ name: c13_resume_n2
//@ prop: C13
//@ tier: quick
//@ clause: as c13_resume_n1
//@ funcs: TransferControl::push_replay; request_resume; ReplayRing::push; ReplayRing::covers; ReplayRing::replay_from; wait_for_reconnect; peer; offsets
//@ symbolic: as c13_resume_n1
//@ bounds: ring built by 2 pushes (with and without eviction)
//@ oracle: reference eviction model + acceptance predicate and tail from the statement
//@ stubs: Instant::now -> symbolic monotone clock; Condvar::notify_all -> counter; Condvar::wait_timeout -> unreachable
//@ replay: playback
c13_resume!(c13_resume_n2, 2);

//@ name: c13_resume_n3
//@ prop: C13
//@ tier: experimental
//@ clause: as c13_resume_n1
//@ funcs: TransferControl::push_replay; request_resume; ReplayRing::push; ReplayRing::covers; ReplayRing::replay_from; wait_for_reconnect; peer; offsets
//@ symbolic: as c13_resume_n1
//@ bounds: ring built by 3 pushes (resume after single and double eviction)
//@ oracle: reference eviction model + acceptance predicate and tail from the statement
//@ stubs: Instant::now -> symbolic monotone clock; Condvar::notify_all -> counter; Condvar::wait_timeout -> unreachable
//@ timeout: 3000
//@ replay: playback
c13_resume!(c13_resume_n3, 3);

//@ prop: C13
//@ tier: quick
//@ clause: a file advance empties the buffer and discards any pending resume (also one staged at offset 0); afterwards only offset 0 of the new file is resumable
//@ funcs: TransferControl::advance_to_file; push_replay; request_resume; replay_chunks_from; wait_for_reconnect
//@ symbolic: control state incl. a pending resume at an arbitrary offset, capacity, 2 pushed chunks, next file index, probe offset
//@ bounds: ring built by 2 pushes
//@ oracle: replay_chunks_from(0) is empty; resume(next, x) accepted iff x == 0 and not cancelled; no ResumeReady before a new resume
//@ stubs: Instant::now -> symbolic monotone clock; Condvar::notify_all -> counter; Condvar::wait_timeout -> unreachable
//@ replay: playback
#[kani::proof]
#[kani::stub(std::time::Instant::now, crate::verif_common::now_stub)]
#[kani::stub(std::sync::Condvar::notify_all, crate::verif_common::notify_all_stub)]
#[kani::stub(std::sync::Condvar::wait_timeout, wait_timeout_unreachable)]
#[kani::unwind(5)]
fn c13_advance_empties_ring() {
    let p = any_pushed();
    let pre = any_pre();
    let tc = mk_with_ring(&pre, ReplayRing::new(kani::any()));
    tc.push_replay(p.off[0], p.dlen[0], p.last[0], body_of(&p, 0));
    tc.push_replay(p.off[1], p.dlen[1], p.last[1], body_of(&p, 1));
    let next: u32 = kani::any();
    tc.advance_to_file(next);
    let all = tc.replay_chunks_from(0);
    assert!(all.is_empty(), "replay buffer not emptied by a file advance");
    match tc.wait_for_reconnect(Duration::from_secs(0)) {
        ReconnectOutcome::ResumeReady(_) => panic!("pending resume survived a file advance"),
        _ => {}
    }
    let x: u64 = kani::any();
    let r = tc.request_resume(a_peer(), next, x);
    assert!(r.is_ok() == (!pre.cancelled && x == 0), "after an advance only offset 0 of the new file is resumable");
    kani::cover!(pre.pending == Some(0) && !pre.cancelled);
    std::mem::forget(all);
    std::mem::forget(tc);
}

//@ prop: C13
//@ tier: quick
//@ clause: vacuity witness for the ring family (must FAIL)
//@ funcs: ReplayRing::push
//@ expect: fail
#[kani::proof]
#[kani::unwind(5)]
fn c13_witness() {
    let p = any_pushed();
    let mut ring = ReplayRing::new(kani::any());
    ring.push(p.off[0], p.dlen[0], p.last[0], body_of(&p, 0));
    ring.push(p.off[1], p.dlen[1], p.last[1], body_of(&p, 1));
    assert!(ring.chunks.len() == 2, "verif-witness");
    std::mem::forget(ring);
}

// ===========================================================================
// C12: monitor discipline of the credit / reconnect waits
//   O1  every operation that turns a waiter's predicate from false to true
//       issues notify_all (signal on every enabling transition)
//   O2  the waiter never sleeps on a true predicate, sleeps exactly until the
//       deadline, and reports faithfully, whatever other threads do to the
//       state while the lock is released inside Condvar::wait_timeout
//   O3  state changes only under the lock: by construction (Mutex<Inner>)
// O1 & O2 & O3 + the documented std Mutex/Condvar semantics give "no lost
// wake-up under any interleaving" by the standard monitor argument (trusted).
// ===========================================================================

fn credit_ready(g: &TransferControlInner, chunk: u64) -> bool {
    let in_flight = (g.sent_offset as u128).saturating_sub(g.acked_offset as u128);
    g.cancelled.is_some() || in_flight == 0 || in_flight + chunk as u128 <= g.window_bytes as u128
}

fn reconnect_ready(g: &TransferControlInner) -> bool {
    g.cancelled.is_some() || g.pending_resume.is_some()
}

fn ring_0_or_1() -> ReplayRing {
    let mut ring = ReplayRing::new(kani::any());
    if kani::any() {
        let o: u64 = kani::any();
        let dl: u64 = kani::any();
        kani::assume(o <= u64::MAX - dl);
        ring.push(o, dl, false, vec![1u8]);
    }
    ring
}

fn o1_step<const OP: u8>() {
    let p = any_pre();
    // the ring only matters to request_resume (op 3); keep it empty elsewhere
    let tc = if OP == 3 { mk_with_ring(&p, ring_0_or_1()) } else { mk(&p) };
    let chunk: u64 = kani::any();
    kani::assume(chunk <= (1u64 << 48));
    let (bc, br) = {
        let g = tc.inner.lock().unwrap();
        (credit_ready(&g, chunk), reconnect_ready(&g))
    };
    let n0 = notify_count();
    match OP {
        0 => tc.record_ack(kani::any(), kani::any()),
        1 => tc.cancel("r2"),
        2 => tc.advance_to_file(kani::any()),
        3 => {
            let r = tc.request_resume(a_peer(), kani::any(), kani::any());
            std::mem::forget(r);
        }
        4 => tc.record_sent(kani::any()),
        _ => {
            // contiguous push (producer contract)
            let g = tc.inner.lock().unwrap();
            let next = g.replay.highest_end_offset().unwrap_or(0);
            drop(g);
            let dl: u64 = kani::any();
            kani::assume(next <= u64::MAX - dl);
            tc.push_replay(next, dl, false, vec![2u8]);
        }
    }
    let (ac, ar) = {
        let g = tc.inner.lock().unwrap();
        (credit_ready(&g, chunk), reconnect_ready(&g))
    };
    let enabled = (!bc && ac) || (!br && ar);
    if enabled {
        assert!(notify_count() > n0, "a waiter's condition became true without a notify_all: lost wake-up");
        assert!(OP <= 3, "a send / ring push enabled a waiter");
    }
    // vacuity: the enabling transition this operation exists for is reachable
    kani::cover!(enabled || OP >= 4);
    kani::cover!(!enabled);
    std::mem::forget(tc);
}

macro_rules! c12_o1 {
    ($name:ident, $op:expr) => {
        #[kani::proof]
        #[kani::stub(std::time::Instant::now, crate::verif_common::now_stub)]
        #[kani::stub(std::sync::Condvar::notify_all, crate::verif_common::notify_all_stub)]
        #[kani::unwind(4)]
        fn $name() {
            o1_step::<$op>();
        }
    };
}

//@ name: c12_o1_ack
//@ prop: C12
//@ tier: quick
//@ clause: O1 - a sufficient acknowledgement (record_ack) that frees credit: whenever the operation turns a parked waiter's condition from false to true it broadcasts on the condition variable
//@ funcs: TransferControl::record_ack
//@ symbolic: pre-state full width (window, sent, acked<=sent, file, cancelled?, pending?), waiter chunk length <= 2^48, all arguments of the operation
//@ bounds: one operation from an arbitrary invariant state; replay ring empty or 1 chunk
//@ oracle: (credit or reconnect predicate false before and true after) implies the notify counter advanced
//@ stubs: Condvar::notify_all -> counter (the observable); Instant::now -> symbolic monotone clock
//@ replay: solver-trace
c12_o1!(c12_o1_ack, 0);

//@ name: c12_o1_cancel
//@ prop: C12
//@ tier: quick
//@ clause: O1 - cancel (wakes both the credit and the reconnect waiter): whenever the operation turns a parked waiter's condition from false to true it broadcasts on the condition variable
//@ funcs: TransferControl::cancel
//@ symbolic: pre-state full width (window, sent, acked<=sent, file, cancelled?, pending?), waiter chunk length <= 2^48, all arguments of the operation
//@ bounds: one operation from an arbitrary invariant state; replay ring empty or 1 chunk
//@ oracle: (credit or reconnect predicate false before and true after) implies the notify counter advanced
//@ stubs: Condvar::notify_all -> counter (the observable); Instant::now -> symbolic monotone clock
//@ replay: solver-trace
c12_o1!(c12_o1_cancel, 1);

//@ name: c12_o1_advance
//@ prop: C12
//@ tier: quick
//@ clause: O1 - a file advance (resets in-flight to zero): whenever the operation turns a parked waiter's condition from false to true it broadcasts on the condition variable
//@ funcs: TransferControl::advance_to_file
//@ symbolic: pre-state full width (window, sent, acked<=sent, file, cancelled?, pending?), waiter chunk length <= 2^48, all arguments of the operation
//@ bounds: one operation from an arbitrary invariant state; replay ring empty or 1 chunk
//@ oracle: (credit or reconnect predicate false before and true after) implies the notify counter advanced
//@ stubs: Condvar::notify_all -> counter (the observable); Instant::now -> symbolic monotone clock
//@ replay: solver-trace
c12_o1!(c12_o1_advance, 2);

//@ name: c12_o1_resume
//@ prop: C12
//@ tier: quick
//@ clause: O1 - a resume: credit-freeing for the credit waiter, staging for the reconnect waiter: whenever the operation turns a parked waiter's condition from false to true it broadcasts on the condition variable
//@ funcs: TransferControl::request_resume
//@ symbolic: pre-state full width (window, sent, acked<=sent, file, cancelled?, pending?), waiter chunk length <= 2^48, all arguments of the operation
//@ bounds: one operation from an arbitrary invariant state; replay ring empty or 1 chunk
//@ oracle: (credit or reconnect predicate false before and true after) implies the notify counter advanced
//@ stubs: Condvar::notify_all -> counter (the observable); Instant::now -> symbolic monotone clock
//@ replay: solver-trace
c12_o1!(c12_o1_resume, 3);

//@ name: c12_o1_sent
//@ prop: C12
//@ tier: quick
//@ clause: O1 - record_sent: can never enable a waiter: whenever the operation turns a parked waiter's condition from false to true it broadcasts on the condition variable
//@ funcs: TransferControl::record_sent
//@ symbolic: pre-state full width (window, sent, acked<=sent, file, cancelled?, pending?), waiter chunk length <= 2^48, all arguments of the operation
//@ bounds: one operation from an arbitrary invariant state; replay ring empty or 1 chunk
//@ oracle: (credit or reconnect predicate false before and true after) implies the notify counter advanced
//@ stubs: Condvar::notify_all -> counter (the observable); Instant::now -> symbolic monotone clock
//@ replay: solver-trace
c12_o1!(c12_o1_sent, 4);

//@ name: c12_o1_push
//@ prop: C12
//@ tier: quick
//@ clause: O1 - push_replay: can never enable a waiter: whenever the operation turns a parked waiter's condition from false to true it broadcasts on the condition variable
//@ funcs: TransferControl::push_replay
//@ symbolic: pre-state full width (window, sent, acked<=sent, file, cancelled?, pending?), waiter chunk length <= 2^48, all arguments of the operation
//@ bounds: one operation from an arbitrary invariant state; replay ring empty or 1 chunk
//@ oracle: (credit or reconnect predicate false before and true after) implies the notify counter advanced
//@ stubs: Condvar::notify_all -> counter (the observable); Instant::now -> symbolic monotone clock
//@ replay: solver-trace
c12_o1!(c12_o1_push, 5);

// ---- O2: waiter loop against arbitrary interference ------------------------
static mut O2_DEADLINE_S: u64 = 0;
static mut O2_CHUNK: u64 = 0;
static mut O2_WAITS: u32 = 0;
static mut O2_MAX_WAITS: u32 = 2;
static mut O2_RECONNECT: bool = false;
static mut O2_SLEPT_ON_TRUE: bool = false;
static mut O2_BAD_DURATION: bool = false;
static mut O2_SLEPT_PAST_DEADLINE: bool = false;

/// Condvar::wait_timeout: the lock is released, other threads run, the lock is
/// re-acquired. Model = havoc the protected state to ANY state other threads
/// can produce (offsets arbitrary with acked<=sent, file index arbitrary,
/// cancel only ever set and then sticky, pending resume arbitrary; the window
/// is immutable after construction), return an arbitrary timed-out flag
/// (spurious wake-ups included). Records whether the waiter went to sleep on a
/// true predicate or with a duration other than (deadline - now).
fn wait_timeout_havoc<'a, T>(
    _cv: &Condvar,
    mut guard: std::sync::MutexGuard<'a, T>,
    dur: Duration,
) -> std::sync::LockResult<(std::sync::MutexGuard<'a, T>, std::sync::WaitTimeoutResult)> {
    unsafe {
        O2_WAITS += 1;
        kani::assume(O2_WAITS <= O2_MAX_WAITS); // bound: sleeps per wait call
        let inner: &mut TransferControlInner = &mut *((&mut *guard) as *mut T as *mut TransferControlInner);
        let ready = if O2_RECONNECT { reconnect_ready(inner) } else { credit_ready(inner, O2_CHUNK) };
        if ready {
            O2_SLEPT_ON_TRUE = true;
        }
        let now = clock_s();
        if now >= O2_DEADLINE_S {
            O2_SLEPT_PAST_DEADLINE = true;
        } else {
            // exact for deadlines handed in by the harness (credit waiter); deadlines that
            // std computes as `Instant::now() + timeout` (reconnect waiter) carry Kani's
            // nondeterministic nanoseconds, hence the one-second tolerance downwards
            let want = O2_DEADLINE_S - now;
            let exact = dur.as_secs() == want && dur.subsec_nanos() == 0;
            let within_1s = dur.as_secs() + 1 == want || exact || (dur.as_secs() == want);
            if (O2_RECONNECT && !within_1s) || (!O2_RECONNECT && !exact) {
                O2_BAD_DURATION = true;
            }
        }
        // interference
        let s: u64 = kani::any();
        let a: u64 = kani::any();
        kani::assume(a <= s);
        inner.sent_offset = s;
        inner.acked_offset = a;
        inner.current_file_index = kani::any();
        if inner.cancelled.is_none() && kani::any() {
            inner.cancelled = Some(String::from("r2"));
        }
        inner.pending_resume = if kani::any() { Some(PendingResume { resume_at_offset: kani::any() }) } else { None };
        let timed_out: bool = kani::any();
        Ok((guard, std::mem::transmute::<bool, std::sync::WaitTimeoutResult>(timed_out)))
    }
}

//@ prop: C12
//@ tier: quick
//@ clause: O2 (credit) - the waiter never sleeps while its condition holds, sleeps exactly until its deadline, returns Ok only when credit is available in the state at return, Cancelled iff cancelled, and Timeout only after a clock reading at/after the deadline with the condition still false (not earlier, not never)
//@ funcs: TransferControl::wait_for_credit
//@ symbolic: initial state full width; chunk <= 2^48; deadline; every clock reading (monotone); after each sleep the protected state is havocked to any state other threads can produce; spurious wake-ups
//@ bounds: at most 2 sleeps per call (3 loop iterations); unwind 4; clock in whole seconds
//@ oracle: predicate from C11 evaluated on the locked state at each decision point
//@ stubs: Condvar::wait_timeout -> havoc + arbitrary timed-out flag; Instant::now -> symbolic monotone clock
//@ replay: solver-trace
#[kani::proof]
#[kani::stub(std::time::Instant::now, crate::verif_common::now_stub)]
#[kani::stub(std::sync::Condvar::wait_timeout, wait_timeout_havoc)]
#[kani::unwind(4)]
fn c12_o2_credit_waiter() {
    let p = any_pre();
    let tc = mk(&p);
    let chunk: u64 = kani::any();
    kani::assume(chunk <= (1u64 << 48));
    let deadline_s: u64 = kani::any();
    kani::assume(deadline_s <= (1u64 << 40));
    unsafe {
        O2_DEADLINE_S = deadline_s;
        O2_CHUNK = chunk;
        O2_RECONNECT = false;
    }
    let r = tc.wait_for_credit(chunk, instant_at(deadline_s));
    let g = tc.inner.lock().unwrap();
    unsafe {
        assert!(!O2_SLEPT_ON_TRUE, "waiter went to sleep although its condition was true (missed wake-up window)");
        assert!(!O2_SLEPT_PAST_DEADLINE, "waiter went to sleep at or after its deadline");
        assert!(!O2_BAD_DURATION, "waiter slept with a duration other than deadline - now");
    }
    match &r {
        Ok(()) => {
            assert!(g.cancelled.is_none() && credit_ready(&g, chunk), "Ok without credit in the state at return");
        }
        Err(CreditError::Cancelled(s)) => {
            assert!(g.cancelled.as_deref().map(|x| x.as_bytes() == s.as_bytes()).unwrap_or(false));
        }
        Err(CreditError::Timeout) => {
            assert!(!credit_ready(&g, chunk), "Timeout although the condition held");
            assert!(clock_s() >= deadline_s, "Timeout before the deadline");
        }
    }
    unsafe {
        kani::cover!(O2_WAITS == 2 && r.is_ok());
        kani::cover!(O2_WAITS == 1 && matches!(r, Err(CreditError::Timeout)));
        kani::cover!(O2_WAITS == 2 && matches!(r, Err(CreditError::Cancelled(_))));
    }
    drop(g);
    std::mem::forget(tc);
}

//@ prop: C12
//@ tier: quick
//@ clause: O2 (reconnect) - same discipline for wait_for_reconnect: never sleeps with a pending resume or cancel present, sleeps until the deadline, ResumeReady carries (and consumes) the staged resume, Timeout only at/after the deadline
//@ funcs: TransferControl::wait_for_reconnect
//@ symbolic: initial state full width; timeout (whole seconds <= 2^40); every clock reading; havoc after each sleep; spurious wake-ups
//@ bounds: at most 2 sleeps per call; unwind 4
//@ oracle: predicate (cancelled or pending resume) on the locked state at each decision point
//@ stubs: Condvar::wait_timeout -> havoc + arbitrary timed-out flag; Instant::now -> symbolic monotone clock
//@ replay: solver-trace
#[kani::proof]
#[kani::stub(std::time::Instant::now, crate::verif_common::now_stub)]
#[kani::stub(std::sync::Condvar::wait_timeout, wait_timeout_havoc)]
#[kani::unwind(4)]
fn c12_o2_reconnect_waiter() {
    let p = any_pre();
    let tc = mk(&p);
    let timeout_s: u64 = kani::any();
    kani::assume(timeout_s <= (1u64 << 40));
    unsafe {
        O2_RECONNECT = true;
        O2_CHUNK = 0;
    }
    // wait_for_reconnect reads the clock once to form its deadline; mirror it:
    // the first reading is t0, deadline = t0 + timeout.
    let first: u64 = kani::any();
    kani::assume(first <= (1u64 << 32));
    unsafe {
        // force the first clock step by pre-loading the clock and making the
        // first stubbed step land on `first` is not possible from outside; instead
        // record the deadline lazily: the stub compares against O2_DEADLINE_S, which
        // we set from the clock value the function will see first (CLOCK_S + step).
        // Simplest sound choice: start the clock at `first` with a zero first step.
        crate::verif_common::CLOCK_S = first;
        crate::verif_common::FORCE_ZERO_STEPS = 1;
        // deadline = first reading + timeout (+ up to 1 s of nondeterministic nanoseconds)
        O2_DEADLINE_S = first + timeout_s + 1;
    }
    let r = tc.wait_for_reconnect(Duration::from_secs(timeout_s));
    let g = tc.inner.lock().unwrap();
    unsafe {
        assert!(!O2_SLEPT_ON_TRUE, "reconnect waiter went to sleep although a resume/cancel was present");
        assert!(!O2_SLEPT_PAST_DEADLINE, "reconnect waiter went to sleep at or after its deadline");
        assert!(!O2_BAD_DURATION, "reconnect waiter slept with a duration other than deadline - now");
    }
    match &r {
        ReconnectOutcome::ResumeReady(_) => {
            assert!(g.pending_resume.is_none(), "staged resume not consumed");
        }
        ReconnectOutcome::Cancelled(s) => {
            assert!(g.cancelled.as_deref().map(|x| x.as_bytes() == s.as_bytes()).unwrap_or(false));
        }
        ReconnectOutcome::Timeout => {
            assert!(!reconnect_ready(&g), "Timeout although a resume/cancel was present");
            assert!(clock_s() >= first + timeout_s, "Timeout before the deadline");
        }
    }
    unsafe {
        kani::cover!(O2_WAITS == 2 && matches!(r, ReconnectOutcome::ResumeReady(_)));
        kani::cover!(O2_WAITS == 1 && matches!(r, ReconnectOutcome::Timeout));
    }
    drop(g);
    std::mem::forget(tc);
}

//@ prop: C12
//@ tier: quick
//@ clause: vacuity witness for the O2 family (must FAIL): the havoc stub really is reached and really changes the state
//@ funcs: TransferControl::wait_for_credit
//@ expect: fail
//@ stubs: Condvar::wait_timeout -> havoc; Instant::now -> symbolic monotone clock
#[kani::proof]
#[kani::stub(std::time::Instant::now, crate::verif_common::now_stub)]
#[kani::stub(std::sync::Condvar::wait_timeout, wait_timeout_havoc)]
#[kani::unwind(4)]
fn c12_witness() {
    let p = any_pre();
    kani::assume(!p.cancelled);
    let tc = mk(&p);
    unsafe {
        O2_DEADLINE_S = 1000;
        O2_CHUNK = 5;
        O2_RECONNECT = false;
    }
    let r = tc.wait_for_credit(5, instant_at(1000));
    unsafe {
        assert!(!(O2_WAITS == 2 && matches!(r, Err(CreditError::Cancelled(_)))), "verif-witness");
    }
    std::mem::forget(tc);
}

//@ prop: C12
//@ tier: quick
//@ clause: sanity of the clock model used by the C12 harnesses: stub instants are exactly (secs, 0 ns), ordered and subtractable as std Instants (layout assumption of instant_at)
//@ funcs: std::time::Instant (Sub, PartialOrd) on stub-built values
//@ symbolic: two instants (seconds up to 2^41)
//@ bounds: unwind 4 (std's sub_timespec is recursive)
//@ oracle: b < a => a - b == (a-b) s exactly, a > b; equal seconds => equal instants
#[kani::proof]
#[kani::unwind(4)]
fn c12_clock_model_sanity() {
    let a: u64 = kani::any();
    let b: u64 = kani::any();
    kani::assume(a <= (1u64 << 41) && b <= a);
    let ia = instant_at(a);
    let ib = instant_at(b);
    let d = ia - ib;
    assert!(d.as_secs() == a - b && d.subsec_nanos() == 0);
    assert!((ia > ib) == (a > b) && (ia >= ib));
    assert!((ia == ib) == (a == b));
}

//@ prop: C12
//@ tier: thorough
//@ clause: as c12_o2_credit_waiter with up to 3 sleeps (4 loop iterations) per wait call
//@ funcs: TransferControl::wait_for_credit
//@ symbolic: as c12_o2_credit_waiter
//@ bounds: at most 3 sleeps per call; unwind 5; clock in whole seconds
//@ oracle: predicate from C11 evaluated on the locked state at each decision point
//@ stubs: Condvar::wait_timeout -> havoc + arbitrary timed-out flag; Instant::now -> symbolic monotone clock
//@ replay: solver-trace
//@ timeout: 1800
#[kani::proof]
#[kani::stub(std::time::Instant::now, crate::verif_common::now_stub)]
#[kani::stub(std::sync::Condvar::wait_timeout, wait_timeout_havoc)]
#[kani::unwind(5)]
fn c12_o2_credit_waiter_3_sleeps() {
    unsafe {
        O2_MAX_WAITS = 3;
    }
    c12_o2_credit_waiter();
}

//@ prop: C12
//@ tier: thorough
//@ clause: as c12_o2_reconnect_waiter with up to 3 sleeps per wait call
//@ funcs: TransferControl::wait_for_reconnect
//@ symbolic: as c12_o2_reconnect_waiter
//@ bounds: at most 3 sleeps per call; unwind 5
//@ oracle: predicate (cancelled or pending resume) on the locked state at each decision point
//@ stubs: Condvar::wait_timeout -> havoc + arbitrary timed-out flag; Instant::now -> symbolic monotone clock
//@ replay: solver-trace
//@ timeout: 1800
#[kani::proof]
#[kani::stub(std::time::Instant::now, crate::verif_common::now_stub)]
#[kani::stub(std::sync::Condvar::wait_timeout, wait_timeout_havoc)]
#[kani::unwind(5)]
fn c12_o2_reconnect_waiter_3_sleeps() {
    unsafe {
        O2_MAX_WAITS = 3;
    }
    c12_o2_reconnect_waiter();
}
