use super::*;
