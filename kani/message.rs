use super::*;

// ===========================================================================
// C02: slice parsers on hostile bytes
// ===========================================================================
const C02_BUF: usize = 56;

fn le64(b: &[u8; C02_BUF], o: usize) -> u64 {
    u64::from_le_bytes([b[o], b[o + 1], b[o + 2], b[o + 3], b[o + 4], b[o + 5], b[o + 6], b[o + 7]])
}

/// Consistency predicate from the property statement, evaluated in u128 from
/// the raw input bytes (independent of Header::decode).
fn frame_ok(b: &[u8; C02_BUF], n: usize, exact: bool) -> bool {
    if n < 48 {
        return false;
    }
    let len = le64(b, 0) as u128;
    let q = le64(b, 24) as u128;
    let bl = le64(b, 32) as u128;
    let magic = b[8] == 0x07 && b[9] == 0x15;
    let total = 48 + q + bl;
    magic && len == total && (if exact { n as u128 == total } else { n as u128 >= total })
}

//@ prop: C02, C01
//@ tier: quick
//@ clause: MessageView::from_slice(_exact) never panic on any bytes; succeed exactly when magic, declared total == 48+q+b and the buffer holds the frame (exact: no trailing bytes); returned query/body are exactly the corresponding input ranges
//@ funcs: MessageView::from_slice; MessageView::from_slice_exact; Header::decode
//@ symbolic: 56-byte buffer (every bit, so the three 64-bit length fields range over all values incl. wrapping sums) and its length 0..=56 (every truncation point, trailing garbage)
//@ bounds: buffer <= 56 bytes (payload <= 8)
//@ oracle: u128 consistency predicate on the raw bytes; pointer identity of the borrowed ranges
#[kani::proof]
fn c02_view_from_slice_total() {
    let buf: [u8; C02_BUF] = kani::any();
    let n: usize = kani::any();
    kani::assume(n <= C02_BUF);
    let exact: bool = kani::any();
    let r = if exact { MessageView::from_slice_exact(&buf[..n]) } else { MessageView::from_slice(&buf[..n]) };
    match r {
        Ok(v) => {
            assert!(frame_ok(&buf, n, exact), "parse succeeded on an inconsistent or truncated frame");
            let q = le64(&buf, 24) as usize;
            let bl = le64(&buf, 32) as usize;
            assert!(v.query.len() == q && v.body.len() == bl);
            assert!(v.query.as_ptr() == buf[48..].as_ptr(), "query is not the input range");
            assert!(v.body.as_ptr() == buf[48 + q..].as_ptr(), "body is not the input range");
            assert!(v.header.id == le64(&buf, 16));
            kani::cover!(q == 3 && bl == 5);
            kani::cover!(!exact && n > 48 + q + bl);
        }
        Err(_) => {
            assert!(!frame_ok(&buf, n, exact), "a complete consistent frame was rejected");
            kani::cover!(n >= 48 && buf[8] == 0x07 && buf[9] == 0x15 && le64(&buf, 24) > (1u64 << 63));
            kani::cover!(n == 55 && le64(&buf, 0) == 56 && buf[8] == 0x07 && buf[9] == 0x15 && le64(&buf, 24) == 8 && le64(&buf, 32) == 0);
        }
    }
}

//@ prop: C02
//@ tier: quick
//@ clause: Message::from_slice(_exact) never panic on any bytes; succeed exactly on complete consistent frames; the owned query/body equal the input bytes
//@ funcs: Message::from_slice; Message::from_slice_exact; Message::new; Header::decode
//@ symbolic: 56-byte buffer (every bit) and its length 0..=56
//@ bounds: buffer <= 56 bytes (payload <= 8); unwind 10 covers the <=8-byte copies/compares
//@ oracle: u128 consistency predicate on the raw bytes; bytewise comparison
#[kani::proof]
#[kani::unwind(10)]
fn c02_message_from_slice_total() {
    let buf: [u8; C02_BUF] = kani::any();
    let n: usize = kani::any();
    kani::assume(n <= C02_BUF);
    let exact: bool = kani::any();
    let r = if exact { Message::from_slice_exact(&buf[..n]) } else { Message::from_slice(&buf[..n]) };
    match r {
        Ok(m) => {
            assert!(frame_ok(&buf, n, exact), "parse succeeded on an inconsistent or truncated frame");
            let q = le64(&buf, 24) as usize;
            let bl = le64(&buf, 32) as usize;
            assert!(m.query.len() == q && m.body.len() == bl);
            let mut i = 0;
            while i < q {
                assert!(m.query[i] == buf[48 + i]);
                i += 1;
            }
            let mut j = 0;
            while j < bl {
                assert!(m.body[j] == buf[48 + q + j]);
                j += 1;
            }
            kani::cover!(q == 2 && bl == 6);
            std::mem::forget(m);
        }
        Err(e) => {
            assert!(!frame_ok(&buf, n, exact), "a complete consistent frame was rejected");
            std::mem::forget(e);
        }
    }
}

// ===========================================================================
// C01: every emission route produces header || query || body
// ===========================================================================
use crate::verif_common::{any_header, spec_header_bytes, ShortSink};

/// Oracle frame: spec-table header bytes, then query, then body.
fn oracle_frame<const Q: usize, const B: usize>(h: &Header, q: &[u8; Q], b: &[u8; B]) -> [u8; 64] {
    let mut f = [0u8; 64];
    let hb = spec_header_bytes(h);
    let mut i = 0;
    while i < 48 {
        f[i] = hb[i];
        i += 1;
    }
    let mut j = 0;
    while j < Q {
        f[48 + j] = q[j];
        j += 1;
    }
    let mut k = 0;
    while k < B {
        f[48 + Q + k] = b[k];
        k += 1;
    }
    f
}

fn same(bytes: &[u8], want: &[u8; 64], n: usize) -> bool {
    if bytes.len() != n {
        return false;
    }
    let mut i = 0;
    while i < n {
        if bytes[i] != want[i] {
            return false;
        }
        i += 1;
    }
    true
}

/// Q, B: payload sizes; BODYCAP: capacity of the body buffer handed to
/// into_wire_bytes (below / equal / above the in-place threshold 48+Q+B);
/// WCAP: bytes the sink accepts per write call (short writes when small).
fn routes<const Q: usize, const B: usize, const BODYCAP: usize, const WCAP: usize>() {
    // ALL header fields symbolic, including inconsistent length fields: the
    // owned-message emitters must copy the header verbatim.
    let h = any_header();
    let q: [u8; Q] = kani::any();
    let b: [u8; B] = kani::any();
    let n = 48 + Q + B;
    let want = oracle_frame(&h, &q, &b);

    let mut body = Vec::with_capacity(BODYCAP);
    if B > 0 {
        body.extend_from_slice(&b);
    }
    kani::assume(body.capacity() == BODYCAP);
    let query = if Q > 0 { q.to_vec() } else { Vec::new() };
    let m = Message { header: h, query, body };

    // buffered
    let v = m.to_vec();
    assert!(same(&v, &want, n), "to_vec differs from header||query||body");
    assert!(m.serialized_len() == n);
    // streamed into a (possibly short-writing) sink
    let mut s1 = ShortSink::<WCAP>::new();
    m.write_to(&mut s1).unwrap();
    assert!(same(&s1.out[..s1.len], &want, n), "write_to differs");
    let mut s2 = ShortSink::<WCAP>::new();
    crate::io::write_message(&mut s2, &m).unwrap();
    assert!(same(&s2.out[..s2.len], &want, n), "write_message differs");
    // streaming writer: documented to overwrite the three length fields
    let mut hp = h;
    hp.query_length = Q as u64;
    hp.body_length = B as u64;
    hp.length = (48 + Q + B) as u64;
    let want_patched = oracle_frame(&hp, &q, &b);
    let mut s3 = ShortSink::<WCAP>::new();
    crate::io::write_message_streaming(&mut s3, h, &q, B as u64, |w| {
        use std::io::Write;
        // (an empty write_all is skipped: CBMC unrolls its loop to the bound for a
        // zero-length array and the instance runs out of memory)
        if B > 0 { w.write_all(&b) } else { Ok(()) }
    })
    .unwrap();
    assert!(same(&s3.out[..s3.len], &want_patched, n), "write_message_streaming differs");
    // in-place reuse of the body buffer vs fresh buffer
    let body_ptr = m.body.as_ptr();
    let w = m.into_wire_bytes();
    assert!(same(&w, &want, n), "into_wire_bytes differs");
    // vacuity guard: the path this instance is meant to exercise was taken
    kani::cover!((w.as_ptr() == body_ptr) == (BODYCAP >= n));
    kani::cover!(h.reserved != 0 && h.length != (48 + Q + B) as u64);
    std::mem::forget(v);
    std::mem::forget(w);
}

macro_rules! c01_routes {
    ($name:ident, $q:expr, $b:expr, $cap:expr, $wcap:expr) => {
        #[kani::proof]
        #[kani::unwind(66)]
        fn $name() {
            routes::<$q, $b, $cap, $wcap>();
        }
    };
}

//@ name: c01_routes_q2_b3_cap52_w64
//@ prop: C01
//@ tier: quick
//@ clause: every emission route (to_vec, write_to, write_message, write_message_streaming, into_wire_bytes) yields exactly 48 spec-layout header bytes, then the query, then the body; header copied verbatim (streaming writer patches the three lengths as documented)
//@ funcs: Message::to_vec; Message::serialized_len; Message::write_to; Message::into_wire_bytes; io::write_message; io::write_message_streaming; Header::encode
//@ symbolic: all 11 header fields full width (including inconsistent length fields), all query and body bytes
//@ bounds: |query|=2, |body|=3 (per-instance constants); body buffer capacity 52 = one below the in-place threshold 53; sink accepts 64 byte(s) per write call; unwind 66
//@ oracle: independent REPE v1 (offset,width) table || query || body, compared bytewise
c01_routes!(c01_routes_q2_b3_cap52_w64, 2, 3, 52, 64);

//@ name: c01_routes_q2_b3_cap53_w64
//@ prop: C01
//@ tier: quick
//@ clause: every emission route (to_vec, write_to, write_message, write_message_streaming, into_wire_bytes) yields exactly 48 spec-layout header bytes, then the query, then the body; header copied verbatim (streaming writer patches the three lengths as documented)
//@ funcs: Message::to_vec; Message::serialized_len; Message::write_to; Message::into_wire_bytes; io::write_message; io::write_message_streaming; Header::encode
//@ symbolic: all 11 header fields full width (including inconsistent length fields), all query and body bytes
//@ bounds: |query|=2, |body|=3 (per-instance constants); body buffer capacity 53 = equal to the in-place threshold 53; sink accepts 64 byte(s) per write call; unwind 66
//@ oracle: independent REPE v1 (offset,width) table || query || body, compared bytewise
c01_routes!(c01_routes_q2_b3_cap53_w64, 2, 3, 53, 64);

//@ name: c01_routes_q2_b3_cap54_w2
//@ prop: C01
//@ tier: quick
//@ clause: every emission route (to_vec, write_to, write_message, write_message_streaming, into_wire_bytes) yields exactly 48 spec-layout header bytes, then the query, then the body; header copied verbatim (streaming writer patches the three lengths as documented)
//@ funcs: Message::to_vec; Message::serialized_len; Message::write_to; Message::into_wire_bytes; io::write_message; io::write_message_streaming; Header::encode
//@ symbolic: all 11 header fields full width (including inconsistent length fields), all query and body bytes
//@ bounds: |query|=2, |body|=3 (per-instance constants); body buffer capacity 54 = one above the in-place threshold 53; sink accepts 2 byte(s) per write call; unwind 66
//@ oracle: independent REPE v1 (offset,width) table || query || body, compared bytewise
c01_routes!(c01_routes_q2_b3_cap54_w2, 2, 3, 54, 2);

//@ name: c01_routes_q0_b0_cap48_w64
//@ prop: C01
//@ tier: thorough
//@ timeout: 1500
//@ clause: every emission route (to_vec, write_to, write_message, write_message_streaming, into_wire_bytes) yields exactly 48 spec-layout header bytes, then the query, then the body; header copied verbatim (streaming writer patches the three lengths as documented)
//@ funcs: Message::to_vec; Message::serialized_len; Message::write_to; Message::into_wire_bytes; io::write_message; io::write_message_streaming; Header::encode
//@ symbolic: all 11 header fields full width (including inconsistent length fields), all query and body bytes
//@ bounds: |query|=0, |body|=0 (per-instance constants); body buffer capacity 48 = equal to the in-place threshold 48; sink accepts 64 byte(s) per write call; unwind 66
//@ oracle: independent REPE v1 (offset,width) table || query || body, compared bytewise
c01_routes!(c01_routes_q0_b0_cap48_w64, 0, 0, 48, 64);

//@ name: c01_routes_q0_b0_cap0_w64
//@ prop: C01
//@ tier: thorough
//@ timeout: 1500
//@ clause: every emission route (to_vec, write_to, write_message, write_message_streaming, into_wire_bytes) yields exactly 48 spec-layout header bytes, then the query, then the body; header copied verbatim (streaming writer patches the three lengths as documented)
//@ funcs: Message::to_vec; Message::serialized_len; Message::write_to; Message::into_wire_bytes; io::write_message; io::write_message_streaming; Header::encode
//@ symbolic: all 11 header fields full width (including inconsistent length fields), all query and body bytes
//@ bounds: |query|=0, |body|=0 (per-instance constants); body buffer capacity 0 = minimal, below the in-place threshold 48; sink accepts 64 byte(s) per write call; unwind 66
//@ oracle: independent REPE v1 (offset,width) table || query || body, compared bytewise
c01_routes!(c01_routes_q0_b0_cap0_w64, 0, 0, 0, 64);

//@ name: c01_routes_q0_b0_cap47_w64
//@ prop: C01
//@ tier: thorough
//@ timeout: 1500
//@ clause: every emission route (to_vec, write_to, write_message, write_message_streaming, into_wire_bytes) yields exactly 48 spec-layout header bytes, then the query, then the body; header copied verbatim (streaming writer patches the three lengths as documented)
//@ funcs: Message::to_vec; Message::serialized_len; Message::write_to; Message::into_wire_bytes; io::write_message; io::write_message_streaming; Header::encode
//@ symbolic: all 11 header fields full width (including inconsistent length fields), all query and body bytes
//@ bounds: |query|=0, |body|=0 (per-instance constants); body buffer capacity 47 = one below the in-place threshold 48; sink accepts 64 byte(s) per write call; unwind 66
//@ oracle: independent REPE v1 (offset,width) table || query || body, compared bytewise
c01_routes!(c01_routes_q0_b0_cap47_w64, 0, 0, 47, 64);

//@ name: c01_routes_q0_b0_cap49_w64
//@ prop: C01
//@ tier: thorough
//@ timeout: 1500
//@ clause: every emission route (to_vec, write_to, write_message, write_message_streaming, into_wire_bytes) yields exactly 48 spec-layout header bytes, then the query, then the body; header copied verbatim (streaming writer patches the three lengths as documented)
//@ funcs: Message::to_vec; Message::serialized_len; Message::write_to; Message::into_wire_bytes; io::write_message; io::write_message_streaming; Header::encode
//@ symbolic: all 11 header fields full width (including inconsistent length fields), all query and body bytes
//@ bounds: |query|=0, |body|=0 (per-instance constants); body buffer capacity 49 = one above the in-place threshold 48; sink accepts 64 byte(s) per write call; unwind 66
//@ oracle: independent REPE v1 (offset,width) table || query || body, compared bytewise
c01_routes!(c01_routes_q0_b0_cap49_w64, 0, 0, 49, 64);

//@ name: c01_routes_q0_b1_cap1_w64
//@ prop: C01
//@ tier: thorough
//@ timeout: 1500
//@ clause: every emission route (to_vec, write_to, write_message, write_message_streaming, into_wire_bytes) yields exactly 48 spec-layout header bytes, then the query, then the body; header copied verbatim (streaming writer patches the three lengths as documented)
//@ funcs: Message::to_vec; Message::serialized_len; Message::write_to; Message::into_wire_bytes; io::write_message; io::write_message_streaming; Header::encode
//@ symbolic: all 11 header fields full width (including inconsistent length fields), all query and body bytes
//@ bounds: |query|=0, |body|=1 (per-instance constants); body buffer capacity 1 = minimal, below the in-place threshold 49; sink accepts 64 byte(s) per write call; unwind 66
//@ oracle: independent REPE v1 (offset,width) table || query || body, compared bytewise
c01_routes!(c01_routes_q0_b1_cap1_w64, 0, 1, 1, 64);

//@ name: c01_routes_q0_b1_cap48_w64
//@ prop: C01
//@ tier: thorough
//@ timeout: 1500
//@ clause: every emission route (to_vec, write_to, write_message, write_message_streaming, into_wire_bytes) yields exactly 48 spec-layout header bytes, then the query, then the body; header copied verbatim (streaming writer patches the three lengths as documented)
//@ funcs: Message::to_vec; Message::serialized_len; Message::write_to; Message::into_wire_bytes; io::write_message; io::write_message_streaming; Header::encode
//@ symbolic: all 11 header fields full width (including inconsistent length fields), all query and body bytes
//@ bounds: |query|=0, |body|=1 (per-instance constants); body buffer capacity 48 = one below the in-place threshold 49; sink accepts 64 byte(s) per write call; unwind 66
//@ oracle: independent REPE v1 (offset,width) table || query || body, compared bytewise
c01_routes!(c01_routes_q0_b1_cap48_w64, 0, 1, 48, 64);

//@ name: c01_routes_q0_b1_cap49_w64
//@ prop: C01
//@ tier: thorough
//@ timeout: 1500
//@ clause: every emission route (to_vec, write_to, write_message, write_message_streaming, into_wire_bytes) yields exactly 48 spec-layout header bytes, then the query, then the body; header copied verbatim (streaming writer patches the three lengths as documented)
//@ funcs: Message::to_vec; Message::serialized_len; Message::write_to; Message::into_wire_bytes; io::write_message; io::write_message_streaming; Header::encode
//@ symbolic: all 11 header fields full width (including inconsistent length fields), all query and body bytes
//@ bounds: |query|=0, |body|=1 (per-instance constants); body buffer capacity 49 = equal to the in-place threshold 49; sink accepts 64 byte(s) per write call; unwind 66
//@ oracle: independent REPE v1 (offset,width) table || query || body, compared bytewise
c01_routes!(c01_routes_q0_b1_cap49_w64, 0, 1, 49, 64);

//@ name: c01_routes_q0_b1_cap50_w64
//@ prop: C01
//@ tier: thorough
//@ timeout: 1500
//@ clause: every emission route (to_vec, write_to, write_message, write_message_streaming, into_wire_bytes) yields exactly 48 spec-layout header bytes, then the query, then the body; header copied verbatim (streaming writer patches the three lengths as documented)
//@ funcs: Message::to_vec; Message::serialized_len; Message::write_to; Message::into_wire_bytes; io::write_message; io::write_message_streaming; Header::encode
//@ symbolic: all 11 header fields full width (including inconsistent length fields), all query and body bytes
//@ bounds: |query|=0, |body|=1 (per-instance constants); body buffer capacity 50 = one above the in-place threshold 49; sink accepts 64 byte(s) per write call; unwind 66
//@ oracle: independent REPE v1 (offset,width) table || query || body, compared bytewise
c01_routes!(c01_routes_q0_b1_cap50_w64, 0, 1, 50, 64);

//@ name: c01_routes_q0_b3_cap3_w64
//@ prop: C01
//@ tier: thorough
//@ timeout: 1500
//@ clause: every emission route (to_vec, write_to, write_message, write_message_streaming, into_wire_bytes) yields exactly 48 spec-layout header bytes, then the query, then the body; header copied verbatim (streaming writer patches the three lengths as documented)
//@ funcs: Message::to_vec; Message::serialized_len; Message::write_to; Message::into_wire_bytes; io::write_message; io::write_message_streaming; Header::encode
//@ symbolic: all 11 header fields full width (including inconsistent length fields), all query and body bytes
//@ bounds: |query|=0, |body|=3 (per-instance constants); body buffer capacity 3 = minimal, below the in-place threshold 51; sink accepts 64 byte(s) per write call; unwind 66
//@ oracle: independent REPE v1 (offset,width) table || query || body, compared bytewise
c01_routes!(c01_routes_q0_b3_cap3_w64, 0, 3, 3, 64);

//@ name: c01_routes_q0_b3_cap50_w64
//@ prop: C01
//@ tier: thorough
//@ timeout: 1500
//@ clause: every emission route (to_vec, write_to, write_message, write_message_streaming, into_wire_bytes) yields exactly 48 spec-layout header bytes, then the query, then the body; header copied verbatim (streaming writer patches the three lengths as documented)
//@ funcs: Message::to_vec; Message::serialized_len; Message::write_to; Message::into_wire_bytes; io::write_message; io::write_message_streaming; Header::encode
//@ symbolic: all 11 header fields full width (including inconsistent length fields), all query and body bytes
//@ bounds: |query|=0, |body|=3 (per-instance constants); body buffer capacity 50 = one below the in-place threshold 51; sink accepts 64 byte(s) per write call; unwind 66
//@ oracle: independent REPE v1 (offset,width) table || query || body, compared bytewise
c01_routes!(c01_routes_q0_b3_cap50_w64, 0, 3, 50, 64);

//@ name: c01_routes_q0_b3_cap51_w64
//@ prop: C01
//@ tier: quick
//@ clause: every emission route (to_vec, write_to, write_message, write_message_streaming, into_wire_bytes) yields exactly 48 spec-layout header bytes, then the query, then the body; header copied verbatim (streaming writer patches the three lengths as documented)
//@ funcs: Message::to_vec; Message::serialized_len; Message::write_to; Message::into_wire_bytes; io::write_message; io::write_message_streaming; Header::encode
//@ symbolic: all 11 header fields full width (including inconsistent length fields), all query and body bytes
//@ bounds: |query|=0, |body|=3 (per-instance constants); body buffer capacity 51 = equal to the in-place threshold 51; sink accepts 64 byte(s) per write call; unwind 66
//@ oracle: independent REPE v1 (offset,width) table || query || body, compared bytewise
c01_routes!(c01_routes_q0_b3_cap51_w64, 0, 3, 51, 64);

//@ name: c01_routes_q0_b3_cap52_w64
//@ prop: C01
//@ tier: thorough
//@ timeout: 1500
//@ clause: every emission route (to_vec, write_to, write_message, write_message_streaming, into_wire_bytes) yields exactly 48 spec-layout header bytes, then the query, then the body; header copied verbatim (streaming writer patches the three lengths as documented)
//@ funcs: Message::to_vec; Message::serialized_len; Message::write_to; Message::into_wire_bytes; io::write_message; io::write_message_streaming; Header::encode
//@ symbolic: all 11 header fields full width (including inconsistent length fields), all query and body bytes
//@ bounds: |query|=0, |body|=3 (per-instance constants); body buffer capacity 52 = one above the in-place threshold 51; sink accepts 64 byte(s) per write call; unwind 66
//@ oracle: independent REPE v1 (offset,width) table || query || body, compared bytewise
c01_routes!(c01_routes_q0_b3_cap52_w64, 0, 3, 52, 64);

//@ name: c01_routes_q1_b0_cap0_w64
//@ prop: C01
//@ tier: thorough
//@ timeout: 1500
//@ clause: every emission route (to_vec, write_to, write_message, write_message_streaming, into_wire_bytes) yields exactly 48 spec-layout header bytes, then the query, then the body; header copied verbatim (streaming writer patches the three lengths as documented)
//@ funcs: Message::to_vec; Message::serialized_len; Message::write_to; Message::into_wire_bytes; io::write_message; io::write_message_streaming; Header::encode
//@ symbolic: all 11 header fields full width (including inconsistent length fields), all query and body bytes
//@ bounds: |query|=1, |body|=0 (per-instance constants); body buffer capacity 0 = minimal, below the in-place threshold 49; sink accepts 64 byte(s) per write call; unwind 66
//@ oracle: independent REPE v1 (offset,width) table || query || body, compared bytewise
c01_routes!(c01_routes_q1_b0_cap0_w64, 1, 0, 0, 64);

//@ name: c01_routes_q1_b0_cap48_w64
//@ prop: C01
//@ tier: thorough
//@ timeout: 1500
//@ clause: every emission route (to_vec, write_to, write_message, write_message_streaming, into_wire_bytes) yields exactly 48 spec-layout header bytes, then the query, then the body; header copied verbatim (streaming writer patches the three lengths as documented)
//@ funcs: Message::to_vec; Message::serialized_len; Message::write_to; Message::into_wire_bytes; io::write_message; io::write_message_streaming; Header::encode
//@ symbolic: all 11 header fields full width (including inconsistent length fields), all query and body bytes
//@ bounds: |query|=1, |body|=0 (per-instance constants); body buffer capacity 48 = one below the in-place threshold 49; sink accepts 64 byte(s) per write call; unwind 66
//@ oracle: independent REPE v1 (offset,width) table || query || body, compared bytewise
c01_routes!(c01_routes_q1_b0_cap48_w64, 1, 0, 48, 64);

//@ name: c01_routes_q1_b0_cap49_w64
//@ prop: C01
//@ tier: thorough
//@ timeout: 1500
//@ clause: every emission route (to_vec, write_to, write_message, write_message_streaming, into_wire_bytes) yields exactly 48 spec-layout header bytes, then the query, then the body; header copied verbatim (streaming writer patches the three lengths as documented)
//@ funcs: Message::to_vec; Message::serialized_len; Message::write_to; Message::into_wire_bytes; io::write_message; io::write_message_streaming; Header::encode
//@ symbolic: all 11 header fields full width (including inconsistent length fields), all query and body bytes
//@ bounds: |query|=1, |body|=0 (per-instance constants); body buffer capacity 49 = equal to the in-place threshold 49; sink accepts 64 byte(s) per write call; unwind 66
//@ oracle: independent REPE v1 (offset,width) table || query || body, compared bytewise
c01_routes!(c01_routes_q1_b0_cap49_w64, 1, 0, 49, 64);

//@ name: c01_routes_q1_b0_cap50_w64
//@ prop: C01
//@ tier: thorough
//@ timeout: 1500
//@ clause: every emission route (to_vec, write_to, write_message, write_message_streaming, into_wire_bytes) yields exactly 48 spec-layout header bytes, then the query, then the body; header copied verbatim (streaming writer patches the three lengths as documented)
//@ funcs: Message::to_vec; Message::serialized_len; Message::write_to; Message::into_wire_bytes; io::write_message; io::write_message_streaming; Header::encode
//@ symbolic: all 11 header fields full width (including inconsistent length fields), all query and body bytes
//@ bounds: |query|=1, |body|=0 (per-instance constants); body buffer capacity 50 = one above the in-place threshold 49; sink accepts 64 byte(s) per write call; unwind 66
//@ oracle: independent REPE v1 (offset,width) table || query || body, compared bytewise
c01_routes!(c01_routes_q1_b0_cap50_w64, 1, 0, 50, 64);

//@ name: c01_routes_q1_b1_cap1_w64
//@ prop: C01
//@ tier: thorough
//@ timeout: 1500
//@ clause: every emission route (to_vec, write_to, write_message, write_message_streaming, into_wire_bytes) yields exactly 48 spec-layout header bytes, then the query, then the body; header copied verbatim (streaming writer patches the three lengths as documented)
//@ funcs: Message::to_vec; Message::serialized_len; Message::write_to; Message::into_wire_bytes; io::write_message; io::write_message_streaming; Header::encode
//@ symbolic: all 11 header fields full width (including inconsistent length fields), all query and body bytes
//@ bounds: |query|=1, |body|=1 (per-instance constants); body buffer capacity 1 = minimal, below the in-place threshold 50; sink accepts 64 byte(s) per write call; unwind 66
//@ oracle: independent REPE v1 (offset,width) table || query || body, compared bytewise
c01_routes!(c01_routes_q1_b1_cap1_w64, 1, 1, 1, 64);

//@ name: c01_routes_q1_b1_cap49_w64
//@ prop: C01
//@ tier: thorough
//@ timeout: 1500
//@ clause: every emission route (to_vec, write_to, write_message, write_message_streaming, into_wire_bytes) yields exactly 48 spec-layout header bytes, then the query, then the body; header copied verbatim (streaming writer patches the three lengths as documented)
//@ funcs: Message::to_vec; Message::serialized_len; Message::write_to; Message::into_wire_bytes; io::write_message; io::write_message_streaming; Header::encode
//@ symbolic: all 11 header fields full width (including inconsistent length fields), all query and body bytes
//@ bounds: |query|=1, |body|=1 (per-instance constants); body buffer capacity 49 = one below the in-place threshold 50; sink accepts 64 byte(s) per write call; unwind 66
//@ oracle: independent REPE v1 (offset,width) table || query || body, compared bytewise
c01_routes!(c01_routes_q1_b1_cap49_w64, 1, 1, 49, 64);

//@ name: c01_routes_q1_b1_cap50_w64
//@ prop: C01
//@ tier: thorough
//@ timeout: 1500
//@ clause: every emission route (to_vec, write_to, write_message, write_message_streaming, into_wire_bytes) yields exactly 48 spec-layout header bytes, then the query, then the body; header copied verbatim (streaming writer patches the three lengths as documented)
//@ funcs: Message::to_vec; Message::serialized_len; Message::write_to; Message::into_wire_bytes; io::write_message; io::write_message_streaming; Header::encode
//@ symbolic: all 11 header fields full width (including inconsistent length fields), all query and body bytes
//@ bounds: |query|=1, |body|=1 (per-instance constants); body buffer capacity 50 = equal to the in-place threshold 50; sink accepts 64 byte(s) per write call; unwind 66
//@ oracle: independent REPE v1 (offset,width) table || query || body, compared bytewise
c01_routes!(c01_routes_q1_b1_cap50_w64, 1, 1, 50, 64);

//@ name: c01_routes_q1_b1_cap51_w64
//@ prop: C01
//@ tier: thorough
//@ timeout: 1500
//@ clause: every emission route (to_vec, write_to, write_message, write_message_streaming, into_wire_bytes) yields exactly 48 spec-layout header bytes, then the query, then the body; header copied verbatim (streaming writer patches the three lengths as documented)
//@ funcs: Message::to_vec; Message::serialized_len; Message::write_to; Message::into_wire_bytes; io::write_message; io::write_message_streaming; Header::encode
//@ symbolic: all 11 header fields full width (including inconsistent length fields), all query and body bytes
//@ bounds: |query|=1, |body|=1 (per-instance constants); body buffer capacity 51 = one above the in-place threshold 50; sink accepts 64 byte(s) per write call; unwind 66
//@ oracle: independent REPE v1 (offset,width) table || query || body, compared bytewise
c01_routes!(c01_routes_q1_b1_cap51_w64, 1, 1, 51, 64);

//@ name: c01_routes_q1_b3_cap3_w64
//@ prop: C01
//@ tier: thorough
//@ timeout: 1500
//@ clause: every emission route (to_vec, write_to, write_message, write_message_streaming, into_wire_bytes) yields exactly 48 spec-layout header bytes, then the query, then the body; header copied verbatim (streaming writer patches the three lengths as documented)
//@ funcs: Message::to_vec; Message::serialized_len; Message::write_to; Message::into_wire_bytes; io::write_message; io::write_message_streaming; Header::encode
//@ symbolic: all 11 header fields full width (including inconsistent length fields), all query and body bytes
//@ bounds: |query|=1, |body|=3 (per-instance constants); body buffer capacity 3 = minimal, below the in-place threshold 52; sink accepts 64 byte(s) per write call; unwind 66
//@ oracle: independent REPE v1 (offset,width) table || query || body, compared bytewise
c01_routes!(c01_routes_q1_b3_cap3_w64, 1, 3, 3, 64);

//@ name: c01_routes_q1_b3_cap51_w64
//@ prop: C01
//@ tier: thorough
//@ timeout: 1500
//@ clause: every emission route (to_vec, write_to, write_message, write_message_streaming, into_wire_bytes) yields exactly 48 spec-layout header bytes, then the query, then the body; header copied verbatim (streaming writer patches the three lengths as documented)
//@ funcs: Message::to_vec; Message::serialized_len; Message::write_to; Message::into_wire_bytes; io::write_message; io::write_message_streaming; Header::encode
//@ symbolic: all 11 header fields full width (including inconsistent length fields), all query and body bytes
//@ bounds: |query|=1, |body|=3 (per-instance constants); body buffer capacity 51 = one below the in-place threshold 52; sink accepts 64 byte(s) per write call; unwind 66
//@ oracle: independent REPE v1 (offset,width) table || query || body, compared bytewise
c01_routes!(c01_routes_q1_b3_cap51_w64, 1, 3, 51, 64);

//@ name: c01_routes_q1_b3_cap52_w64
//@ prop: C01
//@ tier: thorough
//@ timeout: 1500
//@ clause: every emission route (to_vec, write_to, write_message, write_message_streaming, into_wire_bytes) yields exactly 48 spec-layout header bytes, then the query, then the body; header copied verbatim (streaming writer patches the three lengths as documented)
//@ funcs: Message::to_vec; Message::serialized_len; Message::write_to; Message::into_wire_bytes; io::write_message; io::write_message_streaming; Header::encode
//@ symbolic: all 11 header fields full width (including inconsistent length fields), all query and body bytes
//@ bounds: |query|=1, |body|=3 (per-instance constants); body buffer capacity 52 = equal to the in-place threshold 52; sink accepts 64 byte(s) per write call; unwind 66
//@ oracle: independent REPE v1 (offset,width) table || query || body, compared bytewise
c01_routes!(c01_routes_q1_b3_cap52_w64, 1, 3, 52, 64);

//@ name: c01_routes_q1_b3_cap53_w64
//@ prop: C01
//@ tier: thorough
//@ timeout: 1500
//@ clause: every emission route (to_vec, write_to, write_message, write_message_streaming, into_wire_bytes) yields exactly 48 spec-layout header bytes, then the query, then the body; header copied verbatim (streaming writer patches the three lengths as documented)
//@ funcs: Message::to_vec; Message::serialized_len; Message::write_to; Message::into_wire_bytes; io::write_message; io::write_message_streaming; Header::encode
//@ symbolic: all 11 header fields full width (including inconsistent length fields), all query and body bytes
//@ bounds: |query|=1, |body|=3 (per-instance constants); body buffer capacity 53 = one above the in-place threshold 52; sink accepts 64 byte(s) per write call; unwind 66
//@ oracle: independent REPE v1 (offset,width) table || query || body, compared bytewise
c01_routes!(c01_routes_q1_b3_cap53_w64, 1, 3, 53, 64);

//@ name: c01_routes_q2_b0_cap0_w64
//@ prop: C01
//@ tier: thorough
//@ timeout: 1500
//@ clause: every emission route (to_vec, write_to, write_message, write_message_streaming, into_wire_bytes) yields exactly 48 spec-layout header bytes, then the query, then the body; header copied verbatim (streaming writer patches the three lengths as documented)
//@ funcs: Message::to_vec; Message::serialized_len; Message::write_to; Message::into_wire_bytes; io::write_message; io::write_message_streaming; Header::encode
//@ symbolic: all 11 header fields full width (including inconsistent length fields), all query and body bytes
//@ bounds: |query|=2, |body|=0 (per-instance constants); body buffer capacity 0 = minimal, below the in-place threshold 50; sink accepts 64 byte(s) per write call; unwind 66
//@ oracle: independent REPE v1 (offset,width) table || query || body, compared bytewise
c01_routes!(c01_routes_q2_b0_cap0_w64, 2, 0, 0, 64);

//@ name: c01_routes_q2_b0_cap49_w64
//@ prop: C01
//@ tier: thorough
//@ timeout: 1500
//@ clause: every emission route (to_vec, write_to, write_message, write_message_streaming, into_wire_bytes) yields exactly 48 spec-layout header bytes, then the query, then the body; header copied verbatim (streaming writer patches the three lengths as documented)
//@ funcs: Message::to_vec; Message::serialized_len; Message::write_to; Message::into_wire_bytes; io::write_message; io::write_message_streaming; Header::encode
//@ symbolic: all 11 header fields full width (including inconsistent length fields), all query and body bytes
//@ bounds: |query|=2, |body|=0 (per-instance constants); body buffer capacity 49 = one below the in-place threshold 50; sink accepts 64 byte(s) per write call; unwind 66
//@ oracle: independent REPE v1 (offset,width) table || query || body, compared bytewise
c01_routes!(c01_routes_q2_b0_cap49_w64, 2, 0, 49, 64);

//@ name: c01_routes_q2_b0_cap50_w64
//@ prop: C01
//@ tier: thorough
//@ timeout: 1500
//@ clause: every emission route (to_vec, write_to, write_message, write_message_streaming, into_wire_bytes) yields exactly 48 spec-layout header bytes, then the query, then the body; header copied verbatim (streaming writer patches the three lengths as documented)
//@ funcs: Message::to_vec; Message::serialized_len; Message::write_to; Message::into_wire_bytes; io::write_message; io::write_message_streaming; Header::encode
//@ symbolic: all 11 header fields full width (including inconsistent length fields), all query and body bytes
//@ bounds: |query|=2, |body|=0 (per-instance constants); body buffer capacity 50 = equal to the in-place threshold 50; sink accepts 64 byte(s) per write call; unwind 66
//@ oracle: independent REPE v1 (offset,width) table || query || body, compared bytewise
c01_routes!(c01_routes_q2_b0_cap50_w64, 2, 0, 50, 64);

//@ name: c01_routes_q2_b0_cap51_w64
//@ prop: C01
//@ tier: thorough
//@ timeout: 1500
//@ clause: every emission route (to_vec, write_to, write_message, write_message_streaming, into_wire_bytes) yields exactly 48 spec-layout header bytes, then the query, then the body; header copied verbatim (streaming writer patches the three lengths as documented)
//@ funcs: Message::to_vec; Message::serialized_len; Message::write_to; Message::into_wire_bytes; io::write_message; io::write_message_streaming; Header::encode
//@ symbolic: all 11 header fields full width (including inconsistent length fields), all query and body bytes
//@ bounds: |query|=2, |body|=0 (per-instance constants); body buffer capacity 51 = one above the in-place threshold 50; sink accepts 64 byte(s) per write call; unwind 66
//@ oracle: independent REPE v1 (offset,width) table || query || body, compared bytewise
c01_routes!(c01_routes_q2_b0_cap51_w64, 2, 0, 51, 64);

//@ name: c01_routes_q2_b1_cap1_w64
//@ prop: C01
//@ tier: thorough
//@ timeout: 1500
//@ clause: every emission route (to_vec, write_to, write_message, write_message_streaming, into_wire_bytes) yields exactly 48 spec-layout header bytes, then the query, then the body; header copied verbatim (streaming writer patches the three lengths as documented)
//@ funcs: Message::to_vec; Message::serialized_len; Message::write_to; Message::into_wire_bytes; io::write_message; io::write_message_streaming; Header::encode
//@ symbolic: all 11 header fields full width (including inconsistent length fields), all query and body bytes
//@ bounds: |query|=2, |body|=1 (per-instance constants); body buffer capacity 1 = minimal, below the in-place threshold 51; sink accepts 64 byte(s) per write call; unwind 66
//@ oracle: independent REPE v1 (offset,width) table || query || body, compared bytewise
c01_routes!(c01_routes_q2_b1_cap1_w64, 2, 1, 1, 64);

//@ name: c01_routes_q2_b1_cap50_w64
//@ prop: C01
//@ tier: thorough
//@ timeout: 1500
//@ clause: every emission route (to_vec, write_to, write_message, write_message_streaming, into_wire_bytes) yields exactly 48 spec-layout header bytes, then the query, then the body; header copied verbatim (streaming writer patches the three lengths as documented)
//@ funcs: Message::to_vec; Message::serialized_len; Message::write_to; Message::into_wire_bytes; io::write_message; io::write_message_streaming; Header::encode
//@ symbolic: all 11 header fields full width (including inconsistent length fields), all query and body bytes
//@ bounds: |query|=2, |body|=1 (per-instance constants); body buffer capacity 50 = one below the in-place threshold 51; sink accepts 64 byte(s) per write call; unwind 66
//@ oracle: independent REPE v1 (offset,width) table || query || body, compared bytewise
c01_routes!(c01_routes_q2_b1_cap50_w64, 2, 1, 50, 64);

//@ name: c01_routes_q2_b1_cap51_w64
//@ prop: C01
//@ tier: thorough
//@ timeout: 1500
//@ clause: every emission route (to_vec, write_to, write_message, write_message_streaming, into_wire_bytes) yields exactly 48 spec-layout header bytes, then the query, then the body; header copied verbatim (streaming writer patches the three lengths as documented)
//@ funcs: Message::to_vec; Message::serialized_len; Message::write_to; Message::into_wire_bytes; io::write_message; io::write_message_streaming; Header::encode
//@ symbolic: all 11 header fields full width (including inconsistent length fields), all query and body bytes
//@ bounds: |query|=2, |body|=1 (per-instance constants); body buffer capacity 51 = equal to the in-place threshold 51; sink accepts 64 byte(s) per write call; unwind 66
//@ oracle: independent REPE v1 (offset,width) table || query || body, compared bytewise
c01_routes!(c01_routes_q2_b1_cap51_w64, 2, 1, 51, 64);

//@ name: c01_routes_q2_b1_cap52_w64
//@ prop: C01
//@ tier: thorough
//@ timeout: 1500
//@ clause: every emission route (to_vec, write_to, write_message, write_message_streaming, into_wire_bytes) yields exactly 48 spec-layout header bytes, then the query, then the body; header copied verbatim (streaming writer patches the three lengths as documented)
//@ funcs: Message::to_vec; Message::serialized_len; Message::write_to; Message::into_wire_bytes; io::write_message; io::write_message_streaming; Header::encode
//@ symbolic: all 11 header fields full width (including inconsistent length fields), all query and body bytes
//@ bounds: |query|=2, |body|=1 (per-instance constants); body buffer capacity 52 = one above the in-place threshold 51; sink accepts 64 byte(s) per write call; unwind 66
//@ oracle: independent REPE v1 (offset,width) table || query || body, compared bytewise
c01_routes!(c01_routes_q2_b1_cap52_w64, 2, 1, 52, 64);

//@ name: c01_routes_q2_b3_cap3_w64
//@ prop: C01
//@ tier: thorough
//@ timeout: 1500
//@ clause: every emission route (to_vec, write_to, write_message, write_message_streaming, into_wire_bytes) yields exactly 48 spec-layout header bytes, then the query, then the body; header copied verbatim (streaming writer patches the three lengths as documented)
//@ funcs: Message::to_vec; Message::serialized_len; Message::write_to; Message::into_wire_bytes; io::write_message; io::write_message_streaming; Header::encode
//@ symbolic: all 11 header fields full width (including inconsistent length fields), all query and body bytes
//@ bounds: |query|=2, |body|=3 (per-instance constants); body buffer capacity 3 = minimal, below the in-place threshold 53; sink accepts 64 byte(s) per write call; unwind 66
//@ oracle: independent REPE v1 (offset,width) table || query || body, compared bytewise
c01_routes!(c01_routes_q2_b3_cap3_w64, 2, 3, 3, 64);

//@ name: c01_routes_q2_b3_cap3_w2
//@ prop: C01
//@ tier: thorough
//@ timeout: 1500
//@ clause: every emission route (to_vec, write_to, write_message, write_message_streaming, into_wire_bytes) yields exactly 48 spec-layout header bytes, then the query, then the body; header copied verbatim (streaming writer patches the three lengths as documented)
//@ funcs: Message::to_vec; Message::serialized_len; Message::write_to; Message::into_wire_bytes; io::write_message; io::write_message_streaming; Header::encode
//@ symbolic: all 11 header fields full width (including inconsistent length fields), all query and body bytes
//@ bounds: |query|=2, |body|=3 (per-instance constants); body buffer capacity 3 = minimal, below the in-place threshold 53; sink accepts 2 byte(s) per write call; unwind 66
//@ oracle: independent REPE v1 (offset,width) table || query || body, compared bytewise
c01_routes!(c01_routes_q2_b3_cap3_w2, 2, 3, 3, 2);

//@ name: c01_routes_q2_b3_cap52_w2
//@ prop: C01
//@ tier: thorough
//@ timeout: 1500
//@ clause: every emission route (to_vec, write_to, write_message, write_message_streaming, into_wire_bytes) yields exactly 48 spec-layout header bytes, then the query, then the body; header copied verbatim (streaming writer patches the three lengths as documented)
//@ funcs: Message::to_vec; Message::serialized_len; Message::write_to; Message::into_wire_bytes; io::write_message; io::write_message_streaming; Header::encode
//@ symbolic: all 11 header fields full width (including inconsistent length fields), all query and body bytes
//@ bounds: |query|=2, |body|=3 (per-instance constants); body buffer capacity 52 = one below the in-place threshold 53; sink accepts 2 byte(s) per write call; unwind 66
//@ oracle: independent REPE v1 (offset,width) table || query || body, compared bytewise
c01_routes!(c01_routes_q2_b3_cap52_w2, 2, 3, 52, 2);

//@ name: c01_routes_q2_b3_cap53_w2
//@ prop: C01
//@ tier: thorough
//@ timeout: 1500
//@ clause: every emission route (to_vec, write_to, write_message, write_message_streaming, into_wire_bytes) yields exactly 48 spec-layout header bytes, then the query, then the body; header copied verbatim (streaming writer patches the three lengths as documented)
//@ funcs: Message::to_vec; Message::serialized_len; Message::write_to; Message::into_wire_bytes; io::write_message; io::write_message_streaming; Header::encode
//@ symbolic: all 11 header fields full width (including inconsistent length fields), all query and body bytes
//@ bounds: |query|=2, |body|=3 (per-instance constants); body buffer capacity 53 = equal to the in-place threshold 53; sink accepts 2 byte(s) per write call; unwind 66
//@ oracle: independent REPE v1 (offset,width) table || query || body, compared bytewise
c01_routes!(c01_routes_q2_b3_cap53_w2, 2, 3, 53, 2);

//@ name: c01_routes_q2_b3_cap54_w64
//@ prop: C01
//@ tier: thorough
//@ timeout: 1500
//@ clause: every emission route (to_vec, write_to, write_message, write_message_streaming, into_wire_bytes) yields exactly 48 spec-layout header bytes, then the query, then the body; header copied verbatim (streaming writer patches the three lengths as documented)
//@ funcs: Message::to_vec; Message::serialized_len; Message::write_to; Message::into_wire_bytes; io::write_message; io::write_message_streaming; Header::encode
//@ symbolic: all 11 header fields full width (including inconsistent length fields), all query and body bytes
//@ bounds: |query|=2, |body|=3 (per-instance constants); body buffer capacity 54 = one above the in-place threshold 53; sink accepts 64 byte(s) per write call; unwind 66
//@ oracle: independent REPE v1 (offset,width) table || query || body, compared bytewise
c01_routes!(c01_routes_q2_b3_cap54_w64, 2, 3, 54, 64);

//@ name: c01_routes_q5_b8_cap60_w64
//@ prop: C01
//@ tier: thorough
//@ timeout: 1500
//@ clause: every emission route (to_vec, write_to, write_message, write_message_streaming, into_wire_bytes) yields exactly 48 spec-layout header bytes, then the query, then the body; header copied verbatim (streaming writer patches the three lengths as documented)
//@ funcs: Message::to_vec; Message::serialized_len; Message::write_to; Message::into_wire_bytes; io::write_message; io::write_message_streaming; Header::encode
//@ symbolic: all 11 header fields full width (including inconsistent length fields), all query and body bytes
//@ bounds: |query|=5, |body|=8 (per-instance constants); body buffer capacity 60 = one below the in-place threshold 61; sink accepts 64 byte(s) per write call; unwind 66
//@ oracle: independent REPE v1 (offset,width) table || query || body, compared bytewise
c01_routes!(c01_routes_q5_b8_cap60_w64, 5, 8, 60, 64);

//@ name: c01_routes_q5_b8_cap61_w3
//@ prop: C01
//@ tier: thorough
//@ timeout: 1500
//@ clause: every emission route (to_vec, write_to, write_message, write_message_streaming, into_wire_bytes) yields exactly 48 spec-layout header bytes, then the query, then the body; header copied verbatim (streaming writer patches the three lengths as documented)
//@ funcs: Message::to_vec; Message::serialized_len; Message::write_to; Message::into_wire_bytes; io::write_message; io::write_message_streaming; Header::encode
//@ symbolic: all 11 header fields full width (including inconsistent length fields), all query and body bytes
//@ bounds: |query|=5, |body|=8 (per-instance constants); body buffer capacity 61 = equal to the in-place threshold 61; sink accepts 3 byte(s) per write call; unwind 66
//@ oracle: independent REPE v1 (offset,width) table || query || body, compared bytewise
c01_routes!(c01_routes_q5_b8_cap61_w3, 5, 8, 61, 3);

//@ name: c01_routes_q5_b8_cap62_w64
//@ prop: C01
//@ tier: thorough
//@ timeout: 1500
//@ clause: every emission route (to_vec, write_to, write_message, write_message_streaming, into_wire_bytes) yields exactly 48 spec-layout header bytes, then the query, then the body; header copied verbatim (streaming writer patches the three lengths as documented)
//@ funcs: Message::to_vec; Message::serialized_len; Message::write_to; Message::into_wire_bytes; io::write_message; io::write_message_streaming; Header::encode
//@ symbolic: all 11 header fields full width (including inconsistent length fields), all query and body bytes
//@ bounds: |query|=5, |body|=8 (per-instance constants); body buffer capacity 62 = one above the in-place threshold 61; sink accepts 64 byte(s) per write call; unwind 66
//@ oracle: independent REPE v1 (offset,width) table || query || body, compared bytewise
c01_routes!(c01_routes_q5_b8_cap62_w64, 5, 8, 62, 64);

//@ name: c01_routes_q5_b8_cap8_w64
//@ prop: C01
//@ tier: thorough
//@ timeout: 1500
//@ clause: every emission route (to_vec, write_to, write_message, write_message_streaming, into_wire_bytes) yields exactly 48 spec-layout header bytes, then the query, then the body; header copied verbatim (streaming writer patches the three lengths as documented)
//@ funcs: Message::to_vec; Message::serialized_len; Message::write_to; Message::into_wire_bytes; io::write_message; io::write_message_streaming; Header::encode
//@ symbolic: all 11 header fields full width (including inconsistent length fields), all query and body bytes
//@ bounds: |query|=5, |body|=8 (per-instance constants); body buffer capacity 8 = minimal, below the in-place threshold 61; sink accepts 64 byte(s) per write call; unwind 66
//@ oracle: independent REPE v1 (offset,width) table || query || body, compared bytewise
c01_routes!(c01_routes_q5_b8_cap8_w64, 5, 8, 8, 64);

fn consistent_header<const Q: usize, const B: usize>() -> Header {
    let mut h = any_header();
    h.spec = crate::constants::REPE_SPEC;
    h.query_length = Q as u64;
    h.body_length = B as u64;
    h.length = (48 + Q + B) as u64;
    h
}

fn parse_back<const Q: usize, const B: usize>() {
    let h = consistent_header::<Q, B>();
    let q: [u8; Q] = kani::any();
    let b: [u8; B] = kani::any();
    let m = Message { header: h, query: q.to_vec(), body: b.to_vec() };
    let bytes = m.to_vec();
    let back = Message::from_slice(&bytes).expect("own output must parse");
    assert!(back.header == m.header, "header changed across serialise/parse");
    assert!(back.query == m.query && back.body == m.body, "payload changed across serialise/parse");
    let back2 = Message::from_slice_exact(&bytes).expect("own output must parse exactly");
    assert!(back2 == m);
    let v = MessageView::from_slice_exact(&bytes).expect("own output must parse as a view");
    assert!(v.header == m.header);
    assert!(v.query.as_ptr() == bytes[48..].as_ptr() && v.query.len() == Q);
    assert!(v.body.as_ptr() == bytes[48 + Q..].as_ptr() && v.body.len() == B);
    let owned = v.to_message();
    assert!(owned == m, "MessageView::to_message differs from the original");
    kani::cover!(h.reserved != 0 && h.query_format == 0xffff && h.version != 1 && h.notify > 1);
    std::mem::forget(bytes);
}

//@ prop: C01
//@ tier: quick
//@ clause: parsing the serialized bytes returns an identical message (owned, exact and borrowed parsers), preserving every header field including reserved bits and unknown format codes
//@ funcs: Message::to_vec; Message::from_slice; Message::from_slice_exact; MessageView::from_slice_exact; MessageView::to_message; Header::encode; Header::decode
//@ symbolic: all header fields except the magic and the three lengths (which are set consistently), query and body bytes
//@ bounds: |query|=2, |body|=3; unwind 55
//@ oracle: structural equality with the original message; pointer identity of the borrowed ranges
#[kani::proof]
#[kani::unwind(55)]
fn c01_parse_back_q2_b3() {
    parse_back::<2, 3>();
}

//@ prop: C01
//@ tier: thorough
//@ clause: as c01_parse_back_q2_b3, header-only frame
//@ funcs: Message::to_vec; Message::from_slice; Message::from_slice_exact; MessageView::from_slice_exact; MessageView::to_message
//@ symbolic: as c01_parse_back_q2_b3
//@ bounds: |query|=0, |body|=0; unwind 55
//@ oracle: structural equality
#[kani::proof]
#[kani::unwind(55)]
fn c01_parse_back_q0_b0() {
    parse_back::<0, 0>();
}

//@ prop: C01
//@ tier: thorough
//@ clause: as c01_parse_back_q2_b3, empty query
//@ funcs: Message::to_vec; Message::from_slice; Message::from_slice_exact; MessageView::from_slice_exact; MessageView::to_message
//@ symbolic: as c01_parse_back_q2_b3
//@ bounds: |query|=0, |body|=3; unwind 55
//@ oracle: structural equality
#[kani::proof]
#[kani::unwind(55)]
fn c01_parse_back_q0_b3() {
    parse_back::<0, 3>();
}

//@ prop: C01
//@ tier: quick
//@ clause: MessageBuilder::build fills length = 48+|query|+|body|, query_length, body_length, magic and version; ids, flags, error code and format codes (unknown codes included) are carried verbatim
//@ funcs: MessageBuilder::build; MessageBuilder::{id,notify,query_format_code,body_format_code,query_bytes,body_bytes}
//@ symbolic: id, notify, both 16-bit format codes, the 32-bit error code, payload bytes
//@ bounds: |query|=2, |body|=3
//@ oracle: field-by-field from the statement (format code 0 is RawBinary = 0)
#[kani::proof]
#[kani::unwind(8)]
fn c01_builder_build() {
    let id: u64 = kani::any();
    let notify: bool = kani::any();
    let qf: u16 = kani::any();
    let bf: u16 = kani::any();
    let ec: u32 = kani::any();
    let q: [u8; 2] = kani::any();
    let b: [u8; 3] = kani::any();
    let mut bld = Message::builder()
        .id(id)
        .notify(notify)
        .query_format_code(qf)
        .body_format_code(bf)
        .query_bytes(q.to_vec())
        .body_bytes(b.to_vec());
    bld.ec = ec;
    let m = bld.build();
    assert!(m.header.length == 53 && m.header.query_length == 2 && m.header.body_length == 3);
    assert!(m.header.spec == 0x1507 && m.header.version == 1 && m.header.reserved == 0);
    assert!(m.header.id == id && m.header.notify == notify as u8 && m.header.ec == ec);
    assert!(m.header.query_format == qf && m.header.body_format == bf);
    assert!(m.query[..] == q[..] && m.body[..] == b[..]);
    std::mem::forget(m);
}

/// Server-side framing parity: the TCP server frames a response with
/// response_echo_query + write_message_streaming, the WebSocket server with
/// stamp_response_query + into_wire_bytes; both must put the same bytes on the
/// wire for the same response and request query.
fn framing_parity<const RQ: usize, const OWNQ: usize, const B: usize>() {
    // response as a handler / the response builders produce it: consistent header
    let h = consistent_header::<OWNQ, B>();
    let own: [u8; OWNQ] = kani::any();
    let b: [u8; B] = kani::any();
    let rq: [u8; RQ] = kani::any();
    let resp = Message { header: h, query: own.to_vec(), body: b.to_vec() };

    // TCP (src/server.rs handle_connection)
    let mut tcp = ShortSink::<64>::new();
    let echo = response_echo_query(&resp, &rq);
    crate::io::write_message_streaming(&mut tcp, resp.header, echo, resp.body.len() as u64, |w| {
        use std::io::Write;
        w.write_all(&resp.body)
    })
    .unwrap();

    // WebSocket (stamp borrowed, then into_wire_bytes)
    let mut ws_resp = resp.clone();
    stamp_response_query(&mut ws_resp, Cow::Borrowed(&rq[..]));
    let ws = ws_resp.into_wire_bytes();
    // WebSocket off-reader (stamp owned)
    let mut ws_resp2 = resp.clone();
    stamp_response_query(&mut ws_resp2, Cow::Owned(rq.to_vec()));
    let ws2 = ws_resp2.to_vec();

    assert!(tcp.len == ws.len() && ws.len() == ws2.len(), "transports frame different lengths");
    let mut i = 0;
    while i < tcp.len {
        assert!(tcp.out[i] == ws[i] && ws[i] == ws2[i], "TCP and WebSocket framing differ");
        i += 1;
    }
    // and the frame is what the statement says: handler-chosen query wins, else the request's
    let eq_len = if OWNQ > 0 { OWNQ } else { RQ };
    assert!(tcp.len == 48 + eq_len + B);
    let parsed = MessageView::from_slice_exact(&ws).expect("framed response must parse");
    assert!(parsed.header.id == h.id && parsed.header.ec == h.ec);
    if OWNQ > 0 {
        assert!(parsed.query == &own[..]);
    } else {
        assert!(parsed.query == &rq[..]);
    }
    assert!(parsed.body == &b[..]);
    std::mem::forget(ws);
    std::mem::forget(ws2);
}

//@ prop: C01
//@ tier: quick
//@ clause: server-side response framing is byte-identical on the blocking-TCP route (borrowed query echo + streaming writer) and the WebSocket routes (stamp + into_wire_bytes / to_vec); request query echoed when the handler left it empty
//@ funcs: message::response_echo_query; message::stamp_response_query; io::write_message_streaming; Message::into_wire_bytes; Message::to_vec; MessageView::from_slice_exact
//@ symbolic: response header (all fields except magic/lengths), response body bytes, request query bytes
//@ bounds: |request query|=2, response query empty, |body|=3; unwind 60
//@ oracle: pairwise byte equality + parse-back against the statement
#[kani::proof]
#[kani::unwind(60)]
fn c01_server_framing_echo() {
    framing_parity::<2, 0, 3>();
}

//@ prop: C01
//@ tier: quick
//@ clause: as c01_server_framing_echo, handler set its own response query (it must be preserved, not overwritten by the request's)
//@ funcs: message::response_echo_query; message::stamp_response_query; io::write_message_streaming; Message::into_wire_bytes; Message::to_vec
//@ symbolic: as c01_server_framing_echo plus the handler-set query bytes
//@ bounds: |request query|=2, |response query|=1, |body|=3; unwind 60
//@ oracle: pairwise byte equality + parse-back
#[kani::proof]
#[kani::unwind(60)]
fn c01_server_framing_own_query() {
    framing_parity::<2, 1, 3>();
}

//@ prop: C01
//@ tier: thorough
//@ clause: as c01_server_framing_echo, empty request query and empty body
//@ funcs: message::response_echo_query; message::stamp_response_query; io::write_message_streaming; Message::into_wire_bytes; Message::to_vec
//@ symbolic: as c01_server_framing_echo
//@ bounds: |request query|=0, response query empty, |body|=0; unwind 60
//@ oracle: pairwise byte equality + parse-back
#[kani::proof]
#[kani::unwind(60)]
fn c01_server_framing_empty() {
    framing_parity::<0, 0, 0>();
}

// ===========================================================================
// C08: bulk numeric bodies (bulk path of beve; the serde walk is out of reach)
// ===========================================================================
trait Bits: Copy + beve::BeveTypedSlice + kani::Arbitrary {
    fn bits(self) -> u64;
}
macro_rules! bits_int {
    ($($t:ty),*) => { $(impl Bits for $t { fn bits(self) -> u64 { self as u64 } })* };
}
bits_int!(u8, u16, u32, u64, i8, i16, i32, i64);
impl Bits for f32 {
    fn bits(self) -> u64 {
        self.to_bits() as u64
    }
}
impl Bits for f64 {
    fn bits(self) -> u64 {
        self.to_bits()
    }
}

fn same_bits<T: Bits>(a: &[T], b: &[T]) -> bool {
    if a.len() != b.len() {
        return false;
    }
    let mut i = 0;
    while i < a.len() {
        if a[i].bits() != b[i].bits() {
            return false;
        }
        i += 1;
    }
    true
}

/// Round trip, streamed == buffered, format guard, element-type guard.
fn bulk_roundtrip<T: Bits, U: Bits, const N: usize>() {
    let xs: [T; N] = kani::any();
    let id: u64 = kani::any();
    let q = [b'/', b'v'];
    let msg = Message::builder().id(id).query_bytes(q.to_vec()).query_format_code(1).body_typed_slice(&xs).build();
    assert!(msg.header.body_format == BodyFormat::Beve as u16);
    assert!(msg.header.length as usize == 48 + 2 + msg.body.len());
    // decode exactly (NaN payloads / infinities / extreme integers are just bit patterns)
    let back_r = msg.decode_typed_slice::<T>();
    match &back_r {
        Ok(back) => assert!(same_bits(back, &xs), "decoded elements are not bit-for-bit the originals"),
        Err(_) => panic!("own bulk encoding must decode"),
    }
    // streaming writer emits the same frame as the buffered builder
    let mut a = ShortSink::<64>::new();
    let wa = crate::io::write_message(&mut a, &msg);
    assert!(wa.is_ok());
    std::mem::forget(wa);
    let mut hdr = msg.header;
    hdr.body_format = kani::any(); // whatever the caller left there: the writer must set Beve
    hdr.length = 0;
    hdr.body_length = 0;
    hdr.query_length = 0;
    let mut b = ShortSink::<64>::new();
    let wb = crate::io::write_message_typed_slice(&mut b, hdr, &q, &xs);
    assert!(wb.is_ok());
    std::mem::forget(wb);
    assert!(a.len == b.len, "streamed frame length differs from the buffered one");
    let mut i = 0;
    while i < a.len {
        assert!(a.out[i] == b.out[i], "streamed frame differs from the buffered one");
        i += 1;
    }
    // a body of another element type is rejected, never reinterpreted
    let wrong = msg.decode_typed_slice::<U>();
    assert!(wrong.is_err(), "a body of another element type was reinterpreted");
    std::mem::forget(wrong);
    // a body of the wrong format is rejected
    let mut other = msg.clone();
    let bf: u16 = kani::any();
    kani::assume(bf != BodyFormat::Beve as u16);
    other.header.body_format = bf;
    let guard_r = other.decode_typed_slice::<T>();
    match &guard_r {
        Err(RepeError::UnexpectedBodyFormat { got, .. }) => assert!(*got == bf),
        _ => panic!("a non-BEVE body was decoded as a bulk array"),
    }
    std::mem::forget(guard_r);
    std::mem::forget(back_r);
    std::mem::forget(other);
    std::mem::forget(msg);
}

macro_rules! c08_bulk {
    ($name:ident, $t:ty, $u:ty, $n:expr) => {
        #[kani::proof]
        #[kani::unwind(70)]
        fn $name() {
            bulk_roundtrip::<$t, $u, $n>();
        }
    };
}

/// Aligned form: for query length QL the payload block starts at an absolute
/// frame offset that is a multiple of align_of::<T>(), survives into_wire_bytes,
/// and decodes to the same elements.
fn aligned_roundtrip<T: Bits, const N: usize, const QL: usize>() {
    let xs: [T; N] = kani::any();
    let q = [b'/'; QL];
    let msg = Message::builder().id(3).query_bytes(q.to_vec()).query_format_code(1).body_aligned_typed_slice(&xs).build();
    let payload = N * std::mem::size_of::<T>();
    let align = std::mem::align_of::<T>();
    let body_len = msg.body.len();
    assert!(msg.header.body_length as usize == body_len && msg.header.length as usize == 48 + QL + body_len);
    let payload_off_in_frame = 48 + QL + body_len - payload;
    assert!(payload_off_in_frame % align == 0, "aligned payload does not start on an element boundary of the frame");
    // owned decoder reads it for any buffer
    let back = beve::read_aligned_typed_slice::<T>(&msg.body);
    match &back {
        Ok(v) => assert!(same_bits(v, &xs), "aligned decode differs from the originals"),
        Err(_) => panic!("aligned body must decode"),
    }
    // the generic bulk decoder must NOT reinterpret the aligned form as a plain typed array of T
    // wire bytes keep the payload where the padding was computed for
    let expected_total = 48 + QL + body_len;
    let wire = msg.into_wire_bytes();
    assert!(wire.len() == expected_total);
    let v = MessageView::from_slice_exact(&wire).expect("own frame parses");
    let back2 = beve::read_aligned_typed_slice::<T>(v.body);
    match &back2 {
        Ok(v2) => assert!(same_bits(v2, &xs)),
        Err(_) => panic!("aligned body must decode from the wire frame"),
    }
    kani::cover!(wire.len() == expected_total); // reachability of the end of the harness
    std::mem::forget(back);
    std::mem::forget(back2);
    std::mem::forget(wire);
}

macro_rules! c08_aligned {
    ($name:ident, $t:ty, $n:expr, $ql:expr) => {
        #[kani::proof]
        #[kani::unwind(90)]
        fn $name() {
            aligned_roundtrip::<$t, $n, $ql>();
        }
    };
}

//@ name: c08_bulk_roundtrip_f64_empty
//@ prop: C08
//@ tier: quick
//@ clause: the empty slice of f64 through the bulk path: decodes to the empty slice; the streaming writer emits the same frame as the buffered builder (a 2-byte body: typed header, length 0); another element type (i64) or another body format is rejected
//@ funcs: MessageBuilder::body_typed_slice; Message::decode_typed_slice; Message::require_body_format; io::write_message_typed_slice; io::write_message_streaming; io::write_message; beve::to_writer_typed_slice; beve::typed_slice_size; beve::read_typed_slice
//@ symbolic: request id, the body-format code the caller left in the header, the wrong body-format code
//@ bounds: 0 elements; query "/v"; unwind 70
//@ oracle: byte equality of the two frames; Ok(empty); Err on the two guards
c08_bulk!(c08_bulk_roundtrip_f64_empty, f64, i64, 0);

//@ name: c08_bulk_roundtrip_u8_empty
//@ prop: C08
//@ tier: thorough
//@ clause: as c08_bulk_roundtrip_f64_empty for u8 (other type: i8)
//@ funcs: MessageBuilder::body_typed_slice; Message::decode_typed_slice; io::write_message_typed_slice; io::write_message
//@ symbolic: request id, the body-format code the caller left in the header, the wrong body-format code
//@ bounds: 0 elements; query "/v"; unwind 70
//@ oracle: byte equality of the two frames; Ok(empty); Err on the two guards
c08_bulk!(c08_bulk_roundtrip_u8_empty, u8, i8, 0);

//@ name: c08_bulk_roundtrip_u8
//@ prop: C08
//@ tier: thorough
//@ clause: for element type u8: the bulk decoder returns bit-for-bit the originals (NaN payloads, infinities, extreme integers are just bit patterns); the streaming writer emits the same frame as the buffered builder; a body of another element type (i8) or of another body format is rejected rather than reinterpreted
//@ funcs: MessageBuilder::body_typed_slice; Message::decode_typed_slice; Message::require_body_format; io::write_message_typed_slice; io::write_message_streaming; io::write_message; beve::to_writer_typed_slice; beve::typed_slice_size; beve::read_typed_slice
//@ symbolic: 2 elements of u8 (every bit pattern), request id, the wrong body-format code (all u16 except Beve)
//@ bounds: 2 elements; query "/v"; unwind 70
//@ oracle: to_bits equality; byte equality of the two frames; Err on the two guards
//@ out: identity with the generic serde encoding (beve's serde walk exhausts memory under CBMC) is NOT decided
c08_bulk!(c08_bulk_roundtrip_u8, u8, i8, 2);

//@ name: c08_bulk_roundtrip_u16
//@ prop: C08
//@ tier: experimental
//@ timeout: 2400
//@ clause: for element type u16: the bulk decoder returns bit-for-bit the originals (NaN payloads, infinities, extreme integers are just bit patterns); the streaming writer emits the same frame as the buffered builder; a body of another element type (i16) or of another body format is rejected rather than reinterpreted
//@ funcs: MessageBuilder::body_typed_slice; Message::decode_typed_slice; Message::require_body_format; io::write_message_typed_slice; io::write_message_streaming; io::write_message; beve::to_writer_typed_slice; beve::typed_slice_size; beve::read_typed_slice
//@ symbolic: 2 elements of u16 (every bit pattern), request id, the wrong body-format code (all u16 except Beve)
//@ bounds: 2 elements; query "/v"; unwind 70
//@ oracle: to_bits equality; byte equality of the two frames; Err on the two guards
//@ out: identity with the generic serde encoding (beve's serde walk exhausts memory under CBMC) is NOT decided
c08_bulk!(c08_bulk_roundtrip_u16, u16, i16, 2);

//@ name: c08_bulk_roundtrip_u32
//@ prop: C08
//@ tier: thorough
//@ clause: for element type u32: the bulk decoder returns bit-for-bit the originals (NaN payloads, infinities, extreme integers are just bit patterns); the streaming writer emits the same frame as the buffered builder; a body of another element type (f32) or of another body format is rejected rather than reinterpreted
//@ funcs: MessageBuilder::body_typed_slice; Message::decode_typed_slice; Message::require_body_format; io::write_message_typed_slice; io::write_message_streaming; io::write_message; beve::to_writer_typed_slice; beve::typed_slice_size; beve::read_typed_slice
//@ symbolic: 2 elements of u32 (every bit pattern), request id, the wrong body-format code (all u16 except Beve)
//@ bounds: 2 elements; query "/v"; unwind 70
//@ oracle: to_bits equality; byte equality of the two frames; Err on the two guards
//@ out: identity with the generic serde encoding (beve's serde walk exhausts memory under CBMC) is NOT decided
c08_bulk!(c08_bulk_roundtrip_u32, u32, f32, 2);

//@ name: c08_bulk_roundtrip_u64
//@ prop: C08
//@ tier: thorough
//@ clause: for element type u64: the bulk decoder returns bit-for-bit the originals (NaN payloads, infinities, extreme integers are just bit patterns); the streaming writer emits the same frame as the buffered builder; a body of another element type (f64) or of another body format is rejected rather than reinterpreted
//@ funcs: MessageBuilder::body_typed_slice; Message::decode_typed_slice; Message::require_body_format; io::write_message_typed_slice; io::write_message_streaming; io::write_message; beve::to_writer_typed_slice; beve::typed_slice_size; beve::read_typed_slice
//@ symbolic: 2 elements of u64 (every bit pattern), request id, the wrong body-format code (all u16 except Beve)
//@ bounds: 2 elements; query "/v"; unwind 70
//@ oracle: to_bits equality; byte equality of the two frames; Err on the two guards
//@ out: identity with the generic serde encoding (beve's serde walk exhausts memory under CBMC) is NOT decided
c08_bulk!(c08_bulk_roundtrip_u64, u64, f64, 2);

//@ name: c08_bulk_roundtrip_i8
//@ prop: C08
//@ tier: thorough
//@ clause: for element type i8: the bulk decoder returns bit-for-bit the originals (NaN payloads, infinities, extreme integers are just bit patterns); the streaming writer emits the same frame as the buffered builder; a body of another element type (u8) or of another body format is rejected rather than reinterpreted
//@ funcs: MessageBuilder::body_typed_slice; Message::decode_typed_slice; Message::require_body_format; io::write_message_typed_slice; io::write_message_streaming; io::write_message; beve::to_writer_typed_slice; beve::typed_slice_size; beve::read_typed_slice
//@ symbolic: 2 elements of i8 (every bit pattern), request id, the wrong body-format code (all u16 except Beve)
//@ bounds: 2 elements; query "/v"; unwind 70
//@ oracle: to_bits equality; byte equality of the two frames; Err on the two guards
//@ out: identity with the generic serde encoding (beve's serde walk exhausts memory under CBMC) is NOT decided
c08_bulk!(c08_bulk_roundtrip_i8, i8, u8, 2);

//@ name: c08_bulk_roundtrip_i16
//@ prop: C08
//@ tier: thorough
//@ clause: for element type i16: the bulk decoder returns bit-for-bit the originals (NaN payloads, infinities, extreme integers are just bit patterns); the streaming writer emits the same frame as the buffered builder; a body of another element type (u16) or of another body format is rejected rather than reinterpreted
//@ funcs: MessageBuilder::body_typed_slice; Message::decode_typed_slice; Message::require_body_format; io::write_message_typed_slice; io::write_message_streaming; io::write_message; beve::to_writer_typed_slice; beve::typed_slice_size; beve::read_typed_slice
//@ symbolic: 2 elements of i16 (every bit pattern), request id, the wrong body-format code (all u16 except Beve)
//@ bounds: 2 elements; query "/v"; unwind 70
//@ oracle: to_bits equality; byte equality of the two frames; Err on the two guards
//@ out: identity with the generic serde encoding (beve's serde walk exhausts memory under CBMC) is NOT decided
c08_bulk!(c08_bulk_roundtrip_i16, i16, u16, 2);

//@ name: c08_bulk_roundtrip_i32
//@ prop: C08
//@ tier: thorough
//@ clause: for element type i32: the bulk decoder returns bit-for-bit the originals (NaN payloads, infinities, extreme integers are just bit patterns); the streaming writer emits the same frame as the buffered builder; a body of another element type (u32) or of another body format is rejected rather than reinterpreted
//@ funcs: MessageBuilder::body_typed_slice; Message::decode_typed_slice; Message::require_body_format; io::write_message_typed_slice; io::write_message_streaming; io::write_message; beve::to_writer_typed_slice; beve::typed_slice_size; beve::read_typed_slice
//@ symbolic: 2 elements of i32 (every bit pattern), request id, the wrong body-format code (all u16 except Beve)
//@ bounds: 2 elements; query "/v"; unwind 70
//@ oracle: to_bits equality; byte equality of the two frames; Err on the two guards
//@ out: identity with the generic serde encoding (beve's serde walk exhausts memory under CBMC) is NOT decided
c08_bulk!(c08_bulk_roundtrip_i32, i32, u32, 2);

//@ name: c08_bulk_roundtrip_i64
//@ prop: C08
//@ tier: thorough
//@ clause: for element type i64: the bulk decoder returns bit-for-bit the originals (NaN payloads, infinities, extreme integers are just bit patterns); the streaming writer emits the same frame as the buffered builder; a body of another element type (u64) or of another body format is rejected rather than reinterpreted
//@ funcs: MessageBuilder::body_typed_slice; Message::decode_typed_slice; Message::require_body_format; io::write_message_typed_slice; io::write_message_streaming; io::write_message; beve::to_writer_typed_slice; beve::typed_slice_size; beve::read_typed_slice
//@ symbolic: 2 elements of i64 (every bit pattern), request id, the wrong body-format code (all u16 except Beve)
//@ bounds: 2 elements; query "/v"; unwind 70
//@ oracle: to_bits equality; byte equality of the two frames; Err on the two guards
//@ out: identity with the generic serde encoding (beve's serde walk exhausts memory under CBMC) is NOT decided
c08_bulk!(c08_bulk_roundtrip_i64, i64, u64, 2);

//@ name: c08_bulk_roundtrip_f32
//@ prop: C08
//@ tier: thorough
//@ clause: for element type f32: the bulk decoder returns bit-for-bit the originals (NaN payloads, infinities, extreme integers are just bit patterns); the streaming writer emits the same frame as the buffered builder; a body of another element type (i32) or of another body format is rejected rather than reinterpreted
//@ funcs: MessageBuilder::body_typed_slice; Message::decode_typed_slice; Message::require_body_format; io::write_message_typed_slice; io::write_message_streaming; io::write_message; beve::to_writer_typed_slice; beve::typed_slice_size; beve::read_typed_slice
//@ symbolic: 2 elements of f32 (every bit pattern), request id, the wrong body-format code (all u16 except Beve)
//@ bounds: 2 elements; query "/v"; unwind 70
//@ oracle: to_bits equality; byte equality of the two frames; Err on the two guards
//@ out: identity with the generic serde encoding (beve's serde walk exhausts memory under CBMC) is NOT decided
c08_bulk!(c08_bulk_roundtrip_f32, f32, i32, 2);

//@ name: c08_bulk_roundtrip_f64
//@ prop: C08, C01
//@ tier: quick
//@ clause: for element type f64: the bulk decoder returns bit-for-bit the originals (NaN payloads, infinities, extreme integers are just bit patterns); the streaming writer emits the same frame as the buffered builder; a body of another element type (i64) or of another body format is rejected rather than reinterpreted
//@ funcs: MessageBuilder::body_typed_slice; Message::decode_typed_slice; Message::require_body_format; io::write_message_typed_slice; io::write_message_streaming; io::write_message; beve::to_writer_typed_slice; beve::typed_slice_size; beve::read_typed_slice
//@ symbolic: 2 elements of f64 (every bit pattern), request id, the wrong body-format code (all u16 except Beve)
//@ bounds: 2 elements; query "/v"; unwind 70
//@ oracle: to_bits equality; byte equality of the two frames; Err on the two guards
//@ out: identity with the generic serde encoding (beve's serde walk exhausts memory under CBMC) is NOT decided
c08_bulk!(c08_bulk_roundtrip_f64, f64, i64, 2);

//@ name: c08_bulk_roundtrip_empty_f32
//@ prop: C08
//@ tier: experimental
//@ timeout: 2400
//@ clause: the empty slice round-trips through the bulk encoder/decoder and streams identically
//@ funcs: MessageBuilder::body_typed_slice; Message::decode_typed_slice; io::write_message_typed_slice; beve::read_typed_slice
//@ symbolic: request id, wrong body-format code
//@ bounds: 0 elements of f32; unwind 70
//@ oracle: decoded length 0; frames equal
c08_bulk!(c08_bulk_roundtrip_empty_f32, f32, u32, 0);

//@ name: c08_aligned_f64_q0
//@ prop: C08
//@ tier: quick
//@ clause: alignment-padded form for f64 with a 0-byte query (residue 0 mod 8): the payload starts at an absolute frame offset that is a multiple of the element alignment, stays there through into_wire_bytes, and decodes to the same elements
//@ funcs: MessageBuilder::body_aligned_typed_slice; beve::aligned_typed_slice_size; beve::write_aligned_typed_slice_at; beve::read_aligned_typed_slice; Message::into_wire_bytes; MessageView::from_slice_exact
//@ symbolic: 2 elements of f64 (every bit pattern)
//@ bounds: 2 elements; query length 0 (per-instance constant); unwind 90
//@ oracle: (48 + |query| + body_len - payload) % align_of == 0; to_bits equality
c08_aligned!(c08_aligned_f64_q0, f64, 2, 0);

//@ name: c08_aligned_f64_q1
//@ prop: C08
//@ tier: thorough
//@ clause: alignment-padded form for f64 with a 1-byte query (residue 1 mod 8): the payload starts at an absolute frame offset that is a multiple of the element alignment, stays there through into_wire_bytes, and decodes to the same elements
//@ funcs: MessageBuilder::body_aligned_typed_slice; beve::aligned_typed_slice_size; beve::write_aligned_typed_slice_at; beve::read_aligned_typed_slice; Message::into_wire_bytes; MessageView::from_slice_exact
//@ symbolic: 2 elements of f64 (every bit pattern)
//@ bounds: 2 elements; query length 1 (per-instance constant); unwind 90
//@ oracle: (48 + |query| + body_len - payload) % align_of == 0; to_bits equality
c08_aligned!(c08_aligned_f64_q1, f64, 2, 1);

//@ name: c08_aligned_f64_q2
//@ prop: C08
//@ tier: thorough
//@ clause: alignment-padded form for f64 with a 2-byte query (residue 2 mod 8): the payload starts at an absolute frame offset that is a multiple of the element alignment, stays there through into_wire_bytes, and decodes to the same elements
//@ funcs: MessageBuilder::body_aligned_typed_slice; beve::aligned_typed_slice_size; beve::write_aligned_typed_slice_at; beve::read_aligned_typed_slice; Message::into_wire_bytes; MessageView::from_slice_exact
//@ symbolic: 2 elements of f64 (every bit pattern)
//@ bounds: 2 elements; query length 2 (per-instance constant); unwind 90
//@ oracle: (48 + |query| + body_len - payload) % align_of == 0; to_bits equality
c08_aligned!(c08_aligned_f64_q2, f64, 2, 2);

//@ name: c08_aligned_f64_q3
//@ prop: C08
//@ tier: quick
//@ clause: alignment-padded form for f64 with a 3-byte query (residue 3 mod 8): the payload starts at an absolute frame offset that is a multiple of the element alignment, stays there through into_wire_bytes, and decodes to the same elements
//@ funcs: MessageBuilder::body_aligned_typed_slice; beve::aligned_typed_slice_size; beve::write_aligned_typed_slice_at; beve::read_aligned_typed_slice; Message::into_wire_bytes; MessageView::from_slice_exact
//@ symbolic: 2 elements of f64 (every bit pattern)
//@ bounds: 2 elements; query length 3 (per-instance constant); unwind 90
//@ oracle: (48 + |query| + body_len - payload) % align_of == 0; to_bits equality
c08_aligned!(c08_aligned_f64_q3, f64, 2, 3);

//@ name: c08_aligned_f64_q4
//@ prop: C08
//@ tier: thorough
//@ clause: alignment-padded form for f64 with a 4-byte query (residue 4 mod 8): the payload starts at an absolute frame offset that is a multiple of the element alignment, stays there through into_wire_bytes, and decodes to the same elements
//@ funcs: MessageBuilder::body_aligned_typed_slice; beve::aligned_typed_slice_size; beve::write_aligned_typed_slice_at; beve::read_aligned_typed_slice; Message::into_wire_bytes; MessageView::from_slice_exact
//@ symbolic: 2 elements of f64 (every bit pattern)
//@ bounds: 2 elements; query length 4 (per-instance constant); unwind 90
//@ oracle: (48 + |query| + body_len - payload) % align_of == 0; to_bits equality
c08_aligned!(c08_aligned_f64_q4, f64, 2, 4);

//@ name: c08_aligned_f64_q5
//@ prop: C08
//@ tier: thorough
//@ clause: alignment-padded form for f64 with a 5-byte query (residue 5 mod 8): the payload starts at an absolute frame offset that is a multiple of the element alignment, stays there through into_wire_bytes, and decodes to the same elements
//@ funcs: MessageBuilder::body_aligned_typed_slice; beve::aligned_typed_slice_size; beve::write_aligned_typed_slice_at; beve::read_aligned_typed_slice; Message::into_wire_bytes; MessageView::from_slice_exact
//@ symbolic: 2 elements of f64 (every bit pattern)
//@ bounds: 2 elements; query length 5 (per-instance constant); unwind 90
//@ oracle: (48 + |query| + body_len - payload) % align_of == 0; to_bits equality
c08_aligned!(c08_aligned_f64_q5, f64, 2, 5);

//@ name: c08_aligned_f64_q6
//@ prop: C08
//@ tier: thorough
//@ clause: alignment-padded form for f64 with a 6-byte query (residue 6 mod 8): the payload starts at an absolute frame offset that is a multiple of the element alignment, stays there through into_wire_bytes, and decodes to the same elements
//@ funcs: MessageBuilder::body_aligned_typed_slice; beve::aligned_typed_slice_size; beve::write_aligned_typed_slice_at; beve::read_aligned_typed_slice; Message::into_wire_bytes; MessageView::from_slice_exact
//@ symbolic: 2 elements of f64 (every bit pattern)
//@ bounds: 2 elements; query length 6 (per-instance constant); unwind 90
//@ oracle: (48 + |query| + body_len - payload) % align_of == 0; to_bits equality
c08_aligned!(c08_aligned_f64_q6, f64, 2, 6);

//@ name: c08_aligned_f64_q7
//@ prop: C08
//@ tier: thorough
//@ clause: alignment-padded form for f64 with a 7-byte query (residue 7 mod 8): the payload starts at an absolute frame offset that is a multiple of the element alignment, stays there through into_wire_bytes, and decodes to the same elements
//@ funcs: MessageBuilder::body_aligned_typed_slice; beve::aligned_typed_slice_size; beve::write_aligned_typed_slice_at; beve::read_aligned_typed_slice; Message::into_wire_bytes; MessageView::from_slice_exact
//@ symbolic: 2 elements of f64 (every bit pattern)
//@ bounds: 2 elements; query length 7 (per-instance constant); unwind 90
//@ oracle: (48 + |query| + body_len - payload) % align_of == 0; to_bits equality
c08_aligned!(c08_aligned_f64_q7, f64, 2, 7);

//@ name: c08_aligned_f64_q8
//@ prop: C08
//@ tier: thorough
//@ clause: alignment-padded form for f64 with a 8-byte query (residue 8 mod 8): the payload starts at an absolute frame offset that is a multiple of the element alignment, stays there through into_wire_bytes, and decodes to the same elements
//@ funcs: MessageBuilder::body_aligned_typed_slice; beve::aligned_typed_slice_size; beve::write_aligned_typed_slice_at; beve::read_aligned_typed_slice; Message::into_wire_bytes; MessageView::from_slice_exact
//@ symbolic: 2 elements of f64 (every bit pattern)
//@ bounds: 2 elements; query length 8 (per-instance constant); unwind 90
//@ oracle: (48 + |query| + body_len - payload) % align_of == 0; to_bits equality
c08_aligned!(c08_aligned_f64_q8, f64, 2, 8);

//@ name: c08_aligned_u16_q0
//@ prop: C08
//@ tier: thorough
//@ clause: alignment-padded form for u16 with a 0-byte query (residue 0 mod 8): the payload starts at an absolute frame offset that is a multiple of the element alignment, stays there through into_wire_bytes, and decodes to the same elements
//@ funcs: MessageBuilder::body_aligned_typed_slice; beve::aligned_typed_slice_size; beve::write_aligned_typed_slice_at; beve::read_aligned_typed_slice; Message::into_wire_bytes; MessageView::from_slice_exact
//@ symbolic: 2 elements of u16 (every bit pattern)
//@ bounds: 2 elements; query length 0 (per-instance constant); unwind 90
//@ oracle: (48 + |query| + body_len - payload) % align_of == 0; to_bits equality
c08_aligned!(c08_aligned_u16_q0, u16, 2, 0);

//@ name: c08_aligned_u16_q1
//@ prop: C08
//@ tier: quick
//@ clause: alignment-padded form for u16 with a 1-byte query (residue 1 mod 8): the payload starts at an absolute frame offset that is a multiple of the element alignment, stays there through into_wire_bytes, and decodes to the same elements
//@ funcs: MessageBuilder::body_aligned_typed_slice; beve::aligned_typed_slice_size; beve::write_aligned_typed_slice_at; beve::read_aligned_typed_slice; Message::into_wire_bytes; MessageView::from_slice_exact
//@ symbolic: 2 elements of u16 (every bit pattern)
//@ bounds: 2 elements; query length 1 (per-instance constant); unwind 90
//@ oracle: (48 + |query| + body_len - payload) % align_of == 0; to_bits equality
c08_aligned!(c08_aligned_u16_q1, u16, 2, 1);

//@ name: c08_aligned_u16_q2
//@ prop: C08
//@ tier: thorough
//@ clause: alignment-padded form for u16 with a 2-byte query (residue 2 mod 8): the payload starts at an absolute frame offset that is a multiple of the element alignment, stays there through into_wire_bytes, and decodes to the same elements
//@ funcs: MessageBuilder::body_aligned_typed_slice; beve::aligned_typed_slice_size; beve::write_aligned_typed_slice_at; beve::read_aligned_typed_slice; Message::into_wire_bytes; MessageView::from_slice_exact
//@ symbolic: 2 elements of u16 (every bit pattern)
//@ bounds: 2 elements; query length 2 (per-instance constant); unwind 90
//@ oracle: (48 + |query| + body_len - payload) % align_of == 0; to_bits equality
c08_aligned!(c08_aligned_u16_q2, u16, 2, 2);

//@ name: c08_aligned_u16_q3
//@ prop: C08
//@ tier: thorough
//@ clause: alignment-padded form for u16 with a 3-byte query (residue 3 mod 8): the payload starts at an absolute frame offset that is a multiple of the element alignment, stays there through into_wire_bytes, and decodes to the same elements
//@ funcs: MessageBuilder::body_aligned_typed_slice; beve::aligned_typed_slice_size; beve::write_aligned_typed_slice_at; beve::read_aligned_typed_slice; Message::into_wire_bytes; MessageView::from_slice_exact
//@ symbolic: 2 elements of u16 (every bit pattern)
//@ bounds: 2 elements; query length 3 (per-instance constant); unwind 90
//@ oracle: (48 + |query| + body_len - payload) % align_of == 0; to_bits equality
c08_aligned!(c08_aligned_u16_q3, u16, 2, 3);

//@ name: c08_aligned_u16_q4
//@ prop: C08
//@ tier: thorough
//@ clause: alignment-padded form for u16 with a 4-byte query (residue 4 mod 8): the payload starts at an absolute frame offset that is a multiple of the element alignment, stays there through into_wire_bytes, and decodes to the same elements
//@ funcs: MessageBuilder::body_aligned_typed_slice; beve::aligned_typed_slice_size; beve::write_aligned_typed_slice_at; beve::read_aligned_typed_slice; Message::into_wire_bytes; MessageView::from_slice_exact
//@ symbolic: 2 elements of u16 (every bit pattern)
//@ bounds: 2 elements; query length 4 (per-instance constant); unwind 90
//@ oracle: (48 + |query| + body_len - payload) % align_of == 0; to_bits equality
c08_aligned!(c08_aligned_u16_q4, u16, 2, 4);

//@ name: c08_aligned_u16_q5
//@ prop: C08
//@ tier: thorough
//@ clause: alignment-padded form for u16 with a 5-byte query (residue 5 mod 8): the payload starts at an absolute frame offset that is a multiple of the element alignment, stays there through into_wire_bytes, and decodes to the same elements
//@ funcs: MessageBuilder::body_aligned_typed_slice; beve::aligned_typed_slice_size; beve::write_aligned_typed_slice_at; beve::read_aligned_typed_slice; Message::into_wire_bytes; MessageView::from_slice_exact
//@ symbolic: 2 elements of u16 (every bit pattern)
//@ bounds: 2 elements; query length 5 (per-instance constant); unwind 90
//@ oracle: (48 + |query| + body_len - payload) % align_of == 0; to_bits equality
c08_aligned!(c08_aligned_u16_q5, u16, 2, 5);

//@ name: c08_aligned_u16_q6
//@ prop: C08
//@ tier: thorough
//@ clause: alignment-padded form for u16 with a 6-byte query (residue 6 mod 8): the payload starts at an absolute frame offset that is a multiple of the element alignment, stays there through into_wire_bytes, and decodes to the same elements
//@ funcs: MessageBuilder::body_aligned_typed_slice; beve::aligned_typed_slice_size; beve::write_aligned_typed_slice_at; beve::read_aligned_typed_slice; Message::into_wire_bytes; MessageView::from_slice_exact
//@ symbolic: 2 elements of u16 (every bit pattern)
//@ bounds: 2 elements; query length 6 (per-instance constant); unwind 90
//@ oracle: (48 + |query| + body_len - payload) % align_of == 0; to_bits equality
c08_aligned!(c08_aligned_u16_q6, u16, 2, 6);

//@ name: c08_aligned_u16_q7
//@ prop: C08
//@ tier: thorough
//@ clause: alignment-padded form for u16 with a 7-byte query (residue 7 mod 8): the payload starts at an absolute frame offset that is a multiple of the element alignment, stays there through into_wire_bytes, and decodes to the same elements
//@ funcs: MessageBuilder::body_aligned_typed_slice; beve::aligned_typed_slice_size; beve::write_aligned_typed_slice_at; beve::read_aligned_typed_slice; Message::into_wire_bytes; MessageView::from_slice_exact
//@ symbolic: 2 elements of u16 (every bit pattern)
//@ bounds: 2 elements; query length 7 (per-instance constant); unwind 90
//@ oracle: (48 + |query| + body_len - payload) % align_of == 0; to_bits equality
c08_aligned!(c08_aligned_u16_q7, u16, 2, 7);

//@ name: c08_aligned_u16_q8
//@ prop: C08
//@ tier: thorough
//@ clause: alignment-padded form for u16 with a 8-byte query (residue 8 mod 8): the payload starts at an absolute frame offset that is a multiple of the element alignment, stays there through into_wire_bytes, and decodes to the same elements
//@ funcs: MessageBuilder::body_aligned_typed_slice; beve::aligned_typed_slice_size; beve::write_aligned_typed_slice_at; beve::read_aligned_typed_slice; Message::into_wire_bytes; MessageView::from_slice_exact
//@ symbolic: 2 elements of u16 (every bit pattern)
//@ bounds: 2 elements; query length 8 (per-instance constant); unwind 90
//@ oracle: (48 + |query| + body_len - payload) % align_of == 0; to_bits equality
c08_aligned!(c08_aligned_u16_q8, u16, 2, 8);

//@ name: c08_aligned_f32_q0
//@ prop: C08
//@ tier: thorough
//@ clause: alignment-padded form for f32 with a 0-byte query (residue 0 mod 8): the payload starts at an absolute frame offset that is a multiple of the element alignment, stays there through into_wire_bytes, and decodes to the same elements
//@ funcs: MessageBuilder::body_aligned_typed_slice; beve::aligned_typed_slice_size; beve::write_aligned_typed_slice_at; beve::read_aligned_typed_slice; Message::into_wire_bytes; MessageView::from_slice_exact
//@ symbolic: 2 elements of f32 (every bit pattern)
//@ bounds: 2 elements; query length 0 (per-instance constant); unwind 90
//@ oracle: (48 + |query| + body_len - payload) % align_of == 0; to_bits equality
c08_aligned!(c08_aligned_f32_q0, f32, 2, 0);

//@ name: c08_aligned_f32_q1
//@ prop: C08
//@ tier: thorough
//@ clause: alignment-padded form for f32 with a 1-byte query (residue 1 mod 8): the payload starts at an absolute frame offset that is a multiple of the element alignment, stays there through into_wire_bytes, and decodes to the same elements
//@ funcs: MessageBuilder::body_aligned_typed_slice; beve::aligned_typed_slice_size; beve::write_aligned_typed_slice_at; beve::read_aligned_typed_slice; Message::into_wire_bytes; MessageView::from_slice_exact
//@ symbolic: 2 elements of f32 (every bit pattern)
//@ bounds: 2 elements; query length 1 (per-instance constant); unwind 90
//@ oracle: (48 + |query| + body_len - payload) % align_of == 0; to_bits equality
c08_aligned!(c08_aligned_f32_q1, f32, 2, 1);

//@ name: c08_aligned_f32_q2
//@ prop: C08
//@ tier: thorough
//@ clause: alignment-padded form for f32 with a 2-byte query (residue 2 mod 8): the payload starts at an absolute frame offset that is a multiple of the element alignment, stays there through into_wire_bytes, and decodes to the same elements
//@ funcs: MessageBuilder::body_aligned_typed_slice; beve::aligned_typed_slice_size; beve::write_aligned_typed_slice_at; beve::read_aligned_typed_slice; Message::into_wire_bytes; MessageView::from_slice_exact
//@ symbolic: 2 elements of f32 (every bit pattern)
//@ bounds: 2 elements; query length 2 (per-instance constant); unwind 90
//@ oracle: (48 + |query| + body_len - payload) % align_of == 0; to_bits equality
c08_aligned!(c08_aligned_f32_q2, f32, 2, 2);

//@ name: c08_aligned_f32_q3
//@ prop: C08
//@ tier: thorough
//@ clause: alignment-padded form for f32 with a 3-byte query (residue 3 mod 8): the payload starts at an absolute frame offset that is a multiple of the element alignment, stays there through into_wire_bytes, and decodes to the same elements
//@ funcs: MessageBuilder::body_aligned_typed_slice; beve::aligned_typed_slice_size; beve::write_aligned_typed_slice_at; beve::read_aligned_typed_slice; Message::into_wire_bytes; MessageView::from_slice_exact
//@ symbolic: 2 elements of f32 (every bit pattern)
//@ bounds: 2 elements; query length 3 (per-instance constant); unwind 90
//@ oracle: (48 + |query| + body_len - payload) % align_of == 0; to_bits equality
c08_aligned!(c08_aligned_f32_q3, f32, 2, 3);

//@ name: c08_aligned_f32_q4
//@ prop: C08
//@ tier: thorough
//@ clause: alignment-padded form for f32 with a 4-byte query (residue 4 mod 8): the payload starts at an absolute frame offset that is a multiple of the element alignment, stays there through into_wire_bytes, and decodes to the same elements
//@ funcs: MessageBuilder::body_aligned_typed_slice; beve::aligned_typed_slice_size; beve::write_aligned_typed_slice_at; beve::read_aligned_typed_slice; Message::into_wire_bytes; MessageView::from_slice_exact
//@ symbolic: 2 elements of f32 (every bit pattern)
//@ bounds: 2 elements; query length 4 (per-instance constant); unwind 90
//@ oracle: (48 + |query| + body_len - payload) % align_of == 0; to_bits equality
c08_aligned!(c08_aligned_f32_q4, f32, 2, 4);

//@ name: c08_aligned_f32_q5
//@ prop: C08
//@ tier: thorough
//@ clause: alignment-padded form for f32 with a 5-byte query (residue 5 mod 8): the payload starts at an absolute frame offset that is a multiple of the element alignment, stays there through into_wire_bytes, and decodes to the same elements
//@ funcs: MessageBuilder::body_aligned_typed_slice; beve::aligned_typed_slice_size; beve::write_aligned_typed_slice_at; beve::read_aligned_typed_slice; Message::into_wire_bytes; MessageView::from_slice_exact
//@ symbolic: 2 elements of f32 (every bit pattern)
//@ bounds: 2 elements; query length 5 (per-instance constant); unwind 90
//@ oracle: (48 + |query| + body_len - payload) % align_of == 0; to_bits equality
c08_aligned!(c08_aligned_f32_q5, f32, 2, 5);

//@ name: c08_aligned_f32_q6
//@ prop: C08
//@ tier: thorough
//@ clause: alignment-padded form for f32 with a 6-byte query (residue 6 mod 8): the payload starts at an absolute frame offset that is a multiple of the element alignment, stays there through into_wire_bytes, and decodes to the same elements
//@ funcs: MessageBuilder::body_aligned_typed_slice; beve::aligned_typed_slice_size; beve::write_aligned_typed_slice_at; beve::read_aligned_typed_slice; Message::into_wire_bytes; MessageView::from_slice_exact
//@ symbolic: 2 elements of f32 (every bit pattern)
//@ bounds: 2 elements; query length 6 (per-instance constant); unwind 90
//@ oracle: (48 + |query| + body_len - payload) % align_of == 0; to_bits equality
c08_aligned!(c08_aligned_f32_q6, f32, 2, 6);

//@ name: c08_aligned_f32_q7
//@ prop: C08
//@ tier: thorough
//@ clause: alignment-padded form for f32 with a 7-byte query (residue 7 mod 8): the payload starts at an absolute frame offset that is a multiple of the element alignment, stays there through into_wire_bytes, and decodes to the same elements
//@ funcs: MessageBuilder::body_aligned_typed_slice; beve::aligned_typed_slice_size; beve::write_aligned_typed_slice_at; beve::read_aligned_typed_slice; Message::into_wire_bytes; MessageView::from_slice_exact
//@ symbolic: 2 elements of f32 (every bit pattern)
//@ bounds: 2 elements; query length 7 (per-instance constant); unwind 90
//@ oracle: (48 + |query| + body_len - payload) % align_of == 0; to_bits equality
c08_aligned!(c08_aligned_f32_q7, f32, 2, 7);

//@ name: c08_aligned_f32_q8
//@ prop: C08
//@ tier: thorough
//@ clause: alignment-padded form for f32 with a 8-byte query (residue 8 mod 8): the payload starts at an absolute frame offset that is a multiple of the element alignment, stays there through into_wire_bytes, and decodes to the same elements
//@ funcs: MessageBuilder::body_aligned_typed_slice; beve::aligned_typed_slice_size; beve::write_aligned_typed_slice_at; beve::read_aligned_typed_slice; Message::into_wire_bytes; MessageView::from_slice_exact
//@ symbolic: 2 elements of f32 (every bit pattern)
//@ bounds: 2 elements; query length 8 (per-instance constant); unwind 90
//@ oracle: (48 + |query| + body_len - payload) % align_of == 0; to_bits equality
c08_aligned!(c08_aligned_f32_q8, f32, 2, 8);

//@ name: c08_aligned_u64_q0
//@ prop: C08
//@ tier: thorough
//@ clause: alignment-padded form for u64 with a 0-byte query (residue 0 mod 8): the payload starts at an absolute frame offset that is a multiple of the element alignment, stays there through into_wire_bytes, and decodes to the same elements
//@ funcs: MessageBuilder::body_aligned_typed_slice; beve::aligned_typed_slice_size; beve::write_aligned_typed_slice_at; beve::read_aligned_typed_slice; Message::into_wire_bytes; MessageView::from_slice_exact
//@ symbolic: 2 elements of u64 (every bit pattern)
//@ bounds: 2 elements; query length 0 (per-instance constant); unwind 90
//@ oracle: (48 + |query| + body_len - payload) % align_of == 0; to_bits equality
c08_aligned!(c08_aligned_u64_q0, u64, 2, 0);

//@ name: c08_aligned_u64_q1
//@ prop: C08
//@ tier: thorough
//@ clause: alignment-padded form for u64 with a 1-byte query (residue 1 mod 8): the payload starts at an absolute frame offset that is a multiple of the element alignment, stays there through into_wire_bytes, and decodes to the same elements
//@ funcs: MessageBuilder::body_aligned_typed_slice; beve::aligned_typed_slice_size; beve::write_aligned_typed_slice_at; beve::read_aligned_typed_slice; Message::into_wire_bytes; MessageView::from_slice_exact
//@ symbolic: 2 elements of u64 (every bit pattern)
//@ bounds: 2 elements; query length 1 (per-instance constant); unwind 90
//@ oracle: (48 + |query| + body_len - payload) % align_of == 0; to_bits equality
c08_aligned!(c08_aligned_u64_q1, u64, 2, 1);

//@ name: c08_aligned_u64_q2
//@ prop: C08
//@ tier: thorough
//@ clause: alignment-padded form for u64 with a 2-byte query (residue 2 mod 8): the payload starts at an absolute frame offset that is a multiple of the element alignment, stays there through into_wire_bytes, and decodes to the same elements
//@ funcs: MessageBuilder::body_aligned_typed_slice; beve::aligned_typed_slice_size; beve::write_aligned_typed_slice_at; beve::read_aligned_typed_slice; Message::into_wire_bytes; MessageView::from_slice_exact
//@ symbolic: 2 elements of u64 (every bit pattern)
//@ bounds: 2 elements; query length 2 (per-instance constant); unwind 90
//@ oracle: (48 + |query| + body_len - payload) % align_of == 0; to_bits equality
c08_aligned!(c08_aligned_u64_q2, u64, 2, 2);

//@ name: c08_aligned_u64_q3
//@ prop: C08
//@ tier: thorough
//@ clause: alignment-padded form for u64 with a 3-byte query (residue 3 mod 8): the payload starts at an absolute frame offset that is a multiple of the element alignment, stays there through into_wire_bytes, and decodes to the same elements
//@ funcs: MessageBuilder::body_aligned_typed_slice; beve::aligned_typed_slice_size; beve::write_aligned_typed_slice_at; beve::read_aligned_typed_slice; Message::into_wire_bytes; MessageView::from_slice_exact
//@ symbolic: 2 elements of u64 (every bit pattern)
//@ bounds: 2 elements; query length 3 (per-instance constant); unwind 90
//@ oracle: (48 + |query| + body_len - payload) % align_of == 0; to_bits equality
c08_aligned!(c08_aligned_u64_q3, u64, 2, 3);

//@ name: c08_aligned_u64_q4
//@ prop: C08
//@ tier: thorough
//@ clause: alignment-padded form for u64 with a 4-byte query (residue 4 mod 8): the payload starts at an absolute frame offset that is a multiple of the element alignment, stays there through into_wire_bytes, and decodes to the same elements
//@ funcs: MessageBuilder::body_aligned_typed_slice; beve::aligned_typed_slice_size; beve::write_aligned_typed_slice_at; beve::read_aligned_typed_slice; Message::into_wire_bytes; MessageView::from_slice_exact
//@ symbolic: 2 elements of u64 (every bit pattern)
//@ bounds: 2 elements; query length 4 (per-instance constant); unwind 90
//@ oracle: (48 + |query| + body_len - payload) % align_of == 0; to_bits equality
c08_aligned!(c08_aligned_u64_q4, u64, 2, 4);

//@ name: c08_aligned_u64_q5
//@ prop: C08
//@ tier: thorough
//@ clause: alignment-padded form for u64 with a 5-byte query (residue 5 mod 8): the payload starts at an absolute frame offset that is a multiple of the element alignment, stays there through into_wire_bytes, and decodes to the same elements
//@ funcs: MessageBuilder::body_aligned_typed_slice; beve::aligned_typed_slice_size; beve::write_aligned_typed_slice_at; beve::read_aligned_typed_slice; Message::into_wire_bytes; MessageView::from_slice_exact
//@ symbolic: 2 elements of u64 (every bit pattern)
//@ bounds: 2 elements; query length 5 (per-instance constant); unwind 90
//@ oracle: (48 + |query| + body_len - payload) % align_of == 0; to_bits equality
c08_aligned!(c08_aligned_u64_q5, u64, 2, 5);

//@ name: c08_aligned_u64_q6
//@ prop: C08
//@ tier: thorough
//@ clause: alignment-padded form for u64 with a 6-byte query (residue 6 mod 8): the payload starts at an absolute frame offset that is a multiple of the element alignment, stays there through into_wire_bytes, and decodes to the same elements
//@ funcs: MessageBuilder::body_aligned_typed_slice; beve::aligned_typed_slice_size; beve::write_aligned_typed_slice_at; beve::read_aligned_typed_slice; Message::into_wire_bytes; MessageView::from_slice_exact
//@ symbolic: 2 elements of u64 (every bit pattern)
//@ bounds: 2 elements; query length 6 (per-instance constant); unwind 90
//@ oracle: (48 + |query| + body_len - payload) % align_of == 0; to_bits equality
c08_aligned!(c08_aligned_u64_q6, u64, 2, 6);

//@ name: c08_aligned_u64_q7
//@ prop: C08
//@ tier: thorough
//@ clause: alignment-padded form for u64 with a 7-byte query (residue 7 mod 8): the payload starts at an absolute frame offset that is a multiple of the element alignment, stays there through into_wire_bytes, and decodes to the same elements
//@ funcs: MessageBuilder::body_aligned_typed_slice; beve::aligned_typed_slice_size; beve::write_aligned_typed_slice_at; beve::read_aligned_typed_slice; Message::into_wire_bytes; MessageView::from_slice_exact
//@ symbolic: 2 elements of u64 (every bit pattern)
//@ bounds: 2 elements; query length 7 (per-instance constant); unwind 90
//@ oracle: (48 + |query| + body_len - payload) % align_of == 0; to_bits equality
c08_aligned!(c08_aligned_u64_q7, u64, 2, 7);

//@ name: c08_aligned_u64_q8
//@ prop: C08
//@ tier: thorough
//@ clause: alignment-padded form for u64 with a 8-byte query (residue 8 mod 8): the payload starts at an absolute frame offset that is a multiple of the element alignment, stays there through into_wire_bytes, and decodes to the same elements
//@ funcs: MessageBuilder::body_aligned_typed_slice; beve::aligned_typed_slice_size; beve::write_aligned_typed_slice_at; beve::read_aligned_typed_slice; Message::into_wire_bytes; MessageView::from_slice_exact
//@ symbolic: 2 elements of u64 (every bit pattern)
//@ bounds: 2 elements; query length 8 (per-instance constant); unwind 90
//@ oracle: (48 + |query| + body_len - payload) % align_of == 0; to_bits equality
c08_aligned!(c08_aligned_u64_q8, u64, 2, 8);

//@ name: c08_aligned_i32_q0
//@ prop: C08
//@ tier: thorough
//@ clause: alignment-padded form for i32 with a 0-byte query (residue 0 mod 8): the payload starts at an absolute frame offset that is a multiple of the element alignment, stays there through into_wire_bytes, and decodes to the same elements
//@ funcs: MessageBuilder::body_aligned_typed_slice; beve::aligned_typed_slice_size; beve::write_aligned_typed_slice_at; beve::read_aligned_typed_slice; Message::into_wire_bytes; MessageView::from_slice_exact
//@ symbolic: 2 elements of i32 (every bit pattern)
//@ bounds: 2 elements; query length 0 (per-instance constant); unwind 90
//@ oracle: (48 + |query| + body_len - payload) % align_of == 0; to_bits equality
c08_aligned!(c08_aligned_i32_q0, i32, 2, 0);

//@ name: c08_aligned_i32_q1
//@ prop: C08
//@ tier: thorough
//@ clause: alignment-padded form for i32 with a 1-byte query (residue 1 mod 8): the payload starts at an absolute frame offset that is a multiple of the element alignment, stays there through into_wire_bytes, and decodes to the same elements
//@ funcs: MessageBuilder::body_aligned_typed_slice; beve::aligned_typed_slice_size; beve::write_aligned_typed_slice_at; beve::read_aligned_typed_slice; Message::into_wire_bytes; MessageView::from_slice_exact
//@ symbolic: 2 elements of i32 (every bit pattern)
//@ bounds: 2 elements; query length 1 (per-instance constant); unwind 90
//@ oracle: (48 + |query| + body_len - payload) % align_of == 0; to_bits equality
c08_aligned!(c08_aligned_i32_q1, i32, 2, 1);

//@ name: c08_aligned_i32_q2
//@ prop: C08
//@ tier: thorough
//@ clause: alignment-padded form for i32 with a 2-byte query (residue 2 mod 8): the payload starts at an absolute frame offset that is a multiple of the element alignment, stays there through into_wire_bytes, and decodes to the same elements
//@ funcs: MessageBuilder::body_aligned_typed_slice; beve::aligned_typed_slice_size; beve::write_aligned_typed_slice_at; beve::read_aligned_typed_slice; Message::into_wire_bytes; MessageView::from_slice_exact
//@ symbolic: 2 elements of i32 (every bit pattern)
//@ bounds: 2 elements; query length 2 (per-instance constant); unwind 90
//@ oracle: (48 + |query| + body_len - payload) % align_of == 0; to_bits equality
c08_aligned!(c08_aligned_i32_q2, i32, 2, 2);

//@ name: c08_aligned_i32_q3
//@ prop: C08
//@ tier: thorough
//@ clause: alignment-padded form for i32 with a 3-byte query (residue 3 mod 8): the payload starts at an absolute frame offset that is a multiple of the element alignment, stays there through into_wire_bytes, and decodes to the same elements
//@ funcs: MessageBuilder::body_aligned_typed_slice; beve::aligned_typed_slice_size; beve::write_aligned_typed_slice_at; beve::read_aligned_typed_slice; Message::into_wire_bytes; MessageView::from_slice_exact
//@ symbolic: 2 elements of i32 (every bit pattern)
//@ bounds: 2 elements; query length 3 (per-instance constant); unwind 90
//@ oracle: (48 + |query| + body_len - payload) % align_of == 0; to_bits equality
c08_aligned!(c08_aligned_i32_q3, i32, 2, 3);

//@ name: c08_aligned_i32_q4
//@ prop: C08
//@ tier: thorough
//@ clause: alignment-padded form for i32 with a 4-byte query (residue 4 mod 8): the payload starts at an absolute frame offset that is a multiple of the element alignment, stays there through into_wire_bytes, and decodes to the same elements
//@ funcs: MessageBuilder::body_aligned_typed_slice; beve::aligned_typed_slice_size; beve::write_aligned_typed_slice_at; beve::read_aligned_typed_slice; Message::into_wire_bytes; MessageView::from_slice_exact
//@ symbolic: 2 elements of i32 (every bit pattern)
//@ bounds: 2 elements; query length 4 (per-instance constant); unwind 90
//@ oracle: (48 + |query| + body_len - payload) % align_of == 0; to_bits equality
c08_aligned!(c08_aligned_i32_q4, i32, 2, 4);

//@ name: c08_aligned_i32_q5
//@ prop: C08
//@ tier: thorough
//@ clause: alignment-padded form for i32 with a 5-byte query (residue 5 mod 8): the payload starts at an absolute frame offset that is a multiple of the element alignment, stays there through into_wire_bytes, and decodes to the same elements
//@ funcs: MessageBuilder::body_aligned_typed_slice; beve::aligned_typed_slice_size; beve::write_aligned_typed_slice_at; beve::read_aligned_typed_slice; Message::into_wire_bytes; MessageView::from_slice_exact
//@ symbolic: 2 elements of i32 (every bit pattern)
//@ bounds: 2 elements; query length 5 (per-instance constant); unwind 90
//@ oracle: (48 + |query| + body_len - payload) % align_of == 0; to_bits equality
c08_aligned!(c08_aligned_i32_q5, i32, 2, 5);

//@ name: c08_aligned_i32_q6
//@ prop: C08
//@ tier: thorough
//@ clause: alignment-padded form for i32 with a 6-byte query (residue 6 mod 8): the payload starts at an absolute frame offset that is a multiple of the element alignment, stays there through into_wire_bytes, and decodes to the same elements
//@ funcs: MessageBuilder::body_aligned_typed_slice; beve::aligned_typed_slice_size; beve::write_aligned_typed_slice_at; beve::read_aligned_typed_slice; Message::into_wire_bytes; MessageView::from_slice_exact
//@ symbolic: 2 elements of i32 (every bit pattern)
//@ bounds: 2 elements; query length 6 (per-instance constant); unwind 90
//@ oracle: (48 + |query| + body_len - payload) % align_of == 0; to_bits equality
c08_aligned!(c08_aligned_i32_q6, i32, 2, 6);

//@ name: c08_aligned_i32_q7
//@ prop: C08
//@ tier: thorough
//@ clause: alignment-padded form for i32 with a 7-byte query (residue 7 mod 8): the payload starts at an absolute frame offset that is a multiple of the element alignment, stays there through into_wire_bytes, and decodes to the same elements
//@ funcs: MessageBuilder::body_aligned_typed_slice; beve::aligned_typed_slice_size; beve::write_aligned_typed_slice_at; beve::read_aligned_typed_slice; Message::into_wire_bytes; MessageView::from_slice_exact
//@ symbolic: 2 elements of i32 (every bit pattern)
//@ bounds: 2 elements; query length 7 (per-instance constant); unwind 90
//@ oracle: (48 + |query| + body_len - payload) % align_of == 0; to_bits equality
c08_aligned!(c08_aligned_i32_q7, i32, 2, 7);

//@ name: c08_aligned_i32_q8
//@ prop: C08
//@ tier: thorough
//@ clause: alignment-padded form for i32 with a 8-byte query (residue 8 mod 8): the payload starts at an absolute frame offset that is a multiple of the element alignment, stays there through into_wire_bytes, and decodes to the same elements
//@ funcs: MessageBuilder::body_aligned_typed_slice; beve::aligned_typed_slice_size; beve::write_aligned_typed_slice_at; beve::read_aligned_typed_slice; Message::into_wire_bytes; MessageView::from_slice_exact
//@ symbolic: 2 elements of i32 (every bit pattern)
//@ bounds: 2 elements; query length 8 (per-instance constant); unwind 90
//@ oracle: (48 + |query| + body_len - payload) % align_of == 0; to_bits equality
c08_aligned!(c08_aligned_i32_q8, i32, 2, 8);

//@ name: c08_aligned_u8_q0
//@ prop: C08
//@ tier: thorough
//@ clause: alignment-padded form for u8 with a 0-byte query (residue 0 mod 8): the payload starts at an absolute frame offset that is a multiple of the element alignment, stays there through into_wire_bytes, and decodes to the same elements
//@ funcs: MessageBuilder::body_aligned_typed_slice; beve::aligned_typed_slice_size; beve::write_aligned_typed_slice_at; beve::read_aligned_typed_slice; Message::into_wire_bytes; MessageView::from_slice_exact
//@ symbolic: 2 elements of u8 (every bit pattern)
//@ bounds: 2 elements; query length 0 (per-instance constant); unwind 90
//@ oracle: (48 + |query| + body_len - payload) % align_of == 0; to_bits equality
c08_aligned!(c08_aligned_u8_q0, u8, 2, 0);

//@ name: c08_aligned_u8_q1
//@ prop: C08
//@ tier: thorough
//@ clause: alignment-padded form for u8 with a 1-byte query (residue 1 mod 8): the payload starts at an absolute frame offset that is a multiple of the element alignment, stays there through into_wire_bytes, and decodes to the same elements
//@ funcs: MessageBuilder::body_aligned_typed_slice; beve::aligned_typed_slice_size; beve::write_aligned_typed_slice_at; beve::read_aligned_typed_slice; Message::into_wire_bytes; MessageView::from_slice_exact
//@ symbolic: 2 elements of u8 (every bit pattern)
//@ bounds: 2 elements; query length 1 (per-instance constant); unwind 90
//@ oracle: (48 + |query| + body_len - payload) % align_of == 0; to_bits equality
c08_aligned!(c08_aligned_u8_q1, u8, 2, 1);

//@ name: c08_aligned_u8_q2
//@ prop: C08
//@ tier: thorough
//@ clause: alignment-padded form for u8 with a 2-byte query (residue 2 mod 8): the payload starts at an absolute frame offset that is a multiple of the element alignment, stays there through into_wire_bytes, and decodes to the same elements
//@ funcs: MessageBuilder::body_aligned_typed_slice; beve::aligned_typed_slice_size; beve::write_aligned_typed_slice_at; beve::read_aligned_typed_slice; Message::into_wire_bytes; MessageView::from_slice_exact
//@ symbolic: 2 elements of u8 (every bit pattern)
//@ bounds: 2 elements; query length 2 (per-instance constant); unwind 90
//@ oracle: (48 + |query| + body_len - payload) % align_of == 0; to_bits equality
c08_aligned!(c08_aligned_u8_q2, u8, 2, 2);

//@ name: c08_aligned_u8_q3
//@ prop: C08
//@ tier: thorough
//@ clause: alignment-padded form for u8 with a 3-byte query (residue 3 mod 8): the payload starts at an absolute frame offset that is a multiple of the element alignment, stays there through into_wire_bytes, and decodes to the same elements
//@ funcs: MessageBuilder::body_aligned_typed_slice; beve::aligned_typed_slice_size; beve::write_aligned_typed_slice_at; beve::read_aligned_typed_slice; Message::into_wire_bytes; MessageView::from_slice_exact
//@ symbolic: 2 elements of u8 (every bit pattern)
//@ bounds: 2 elements; query length 3 (per-instance constant); unwind 90
//@ oracle: (48 + |query| + body_len - payload) % align_of == 0; to_bits equality
c08_aligned!(c08_aligned_u8_q3, u8, 2, 3);

//@ name: c08_aligned_u8_q4
//@ prop: C08
//@ tier: thorough
//@ clause: alignment-padded form for u8 with a 4-byte query (residue 4 mod 8): the payload starts at an absolute frame offset that is a multiple of the element alignment, stays there through into_wire_bytes, and decodes to the same elements
//@ funcs: MessageBuilder::body_aligned_typed_slice; beve::aligned_typed_slice_size; beve::write_aligned_typed_slice_at; beve::read_aligned_typed_slice; Message::into_wire_bytes; MessageView::from_slice_exact
//@ symbolic: 2 elements of u8 (every bit pattern)
//@ bounds: 2 elements; query length 4 (per-instance constant); unwind 90
//@ oracle: (48 + |query| + body_len - payload) % align_of == 0; to_bits equality
c08_aligned!(c08_aligned_u8_q4, u8, 2, 4);

//@ name: c08_aligned_u8_q5
//@ prop: C08
//@ tier: thorough
//@ clause: alignment-padded form for u8 with a 5-byte query (residue 5 mod 8): the payload starts at an absolute frame offset that is a multiple of the element alignment, stays there through into_wire_bytes, and decodes to the same elements
//@ funcs: MessageBuilder::body_aligned_typed_slice; beve::aligned_typed_slice_size; beve::write_aligned_typed_slice_at; beve::read_aligned_typed_slice; Message::into_wire_bytes; MessageView::from_slice_exact
//@ symbolic: 2 elements of u8 (every bit pattern)
//@ bounds: 2 elements; query length 5 (per-instance constant); unwind 90
//@ oracle: (48 + |query| + body_len - payload) % align_of == 0; to_bits equality
c08_aligned!(c08_aligned_u8_q5, u8, 2, 5);

//@ name: c08_aligned_u8_q6
//@ prop: C08
//@ tier: thorough
//@ clause: alignment-padded form for u8 with a 6-byte query (residue 6 mod 8): the payload starts at an absolute frame offset that is a multiple of the element alignment, stays there through into_wire_bytes, and decodes to the same elements
//@ funcs: MessageBuilder::body_aligned_typed_slice; beve::aligned_typed_slice_size; beve::write_aligned_typed_slice_at; beve::read_aligned_typed_slice; Message::into_wire_bytes; MessageView::from_slice_exact
//@ symbolic: 2 elements of u8 (every bit pattern)
//@ bounds: 2 elements; query length 6 (per-instance constant); unwind 90
//@ oracle: (48 + |query| + body_len - payload) % align_of == 0; to_bits equality
c08_aligned!(c08_aligned_u8_q6, u8, 2, 6);

//@ name: c08_aligned_u8_q7
//@ prop: C08
//@ tier: thorough
//@ clause: alignment-padded form for u8 with a 7-byte query (residue 7 mod 8): the payload starts at an absolute frame offset that is a multiple of the element alignment, stays there through into_wire_bytes, and decodes to the same elements
//@ funcs: MessageBuilder::body_aligned_typed_slice; beve::aligned_typed_slice_size; beve::write_aligned_typed_slice_at; beve::read_aligned_typed_slice; Message::into_wire_bytes; MessageView::from_slice_exact
//@ symbolic: 2 elements of u8 (every bit pattern)
//@ bounds: 2 elements; query length 7 (per-instance constant); unwind 90
//@ oracle: (48 + |query| + body_len - payload) % align_of == 0; to_bits equality
c08_aligned!(c08_aligned_u8_q7, u8, 2, 7);

//@ name: c08_aligned_u8_q8
//@ prop: C08
//@ tier: thorough
//@ clause: alignment-padded form for u8 with a 8-byte query (residue 8 mod 8): the payload starts at an absolute frame offset that is a multiple of the element alignment, stays there through into_wire_bytes, and decodes to the same elements
//@ funcs: MessageBuilder::body_aligned_typed_slice; beve::aligned_typed_slice_size; beve::write_aligned_typed_slice_at; beve::read_aligned_typed_slice; Message::into_wire_bytes; MessageView::from_slice_exact
//@ symbolic: 2 elements of u8 (every bit pattern)
//@ bounds: 2 elements; query length 8 (per-instance constant); unwind 90
//@ oracle: (48 + |query| + body_len - payload) % align_of == 0; to_bits equality
c08_aligned!(c08_aligned_u8_q8, u8, 2, 8);

// ---- complex pairs ---------------------------------------------------------------
fn complex_roundtrip<const N: usize>() {
    let re: [f32; N] = kani::any();
    let im: [f32; N] = kani::any();
    let mut xs: Vec<beve::Complex<f32>> = Vec::with_capacity(N);
    let mut i = 0;
    while i < N {
        xs.push(beve::Complex { re: re[i], im: im[i] });
        i += 1;
    }
    let id: u64 = kani::any();
    let q = [b'/', b'c'];
    let msg = Message::builder().id(id).query_bytes(q.to_vec()).query_format_code(1).body_complex_slice(&xs).build();
    assert!(msg.header.body_format == BodyFormat::Beve as u16);
    let back = msg.decode_complex_slice::<f32>();
    match &back {
        Ok(v) => {
            assert!(v.len() == N);
            let mut k = 0;
            while k < N {
                assert!(v[k].re.to_bits() == re[k].to_bits() && v[k].im.to_bits() == im[k].to_bits(), "complex element changed");
                k += 1;
            }
        }
        Err(_) => panic!("own complex encoding must decode"),
    }
    let mut a = ShortSink::<64>::new();
    let wa = crate::io::write_message(&mut a, &msg);
    assert!(wa.is_ok());
    std::mem::forget(wa);
    let mut hdr = msg.header;
    hdr.body_format = kani::any();
    hdr.length = 0;
    hdr.body_length = 0;
    hdr.query_length = 0;
    let mut b = ShortSink::<64>::new();
    let wb = crate::io::write_message_complex_slice(&mut b, hdr, &q, &xs);
    assert!(wb.is_ok());
    std::mem::forget(wb);
    assert!(a.len == b.len, "streamed complex frame length differs from the buffered one");
    let mut j = 0;
    while j < a.len {
        assert!(a.out[j] == b.out[j], "streamed complex frame differs from the buffered one");
        j += 1;
    }
    // a plain typed array of the component type is not a complex array and vice versa
    let wrong = msg.decode_typed_slice::<f32>();
    assert!(wrong.is_err(), "a complex body was reinterpreted as a plain numeric array");
    std::mem::forget(wrong);
    std::mem::forget(back);
    std::mem::forget(msg);
    std::mem::forget(xs);
}

//@ prop: C08
//@ tier: quick
//@ clause: complex pairs: the bulk complex decoder returns bit-for-bit the originals, the streaming writer emits the same frame as the buffered builder, and a complex body is not reinterpreted as a plain numeric array
//@ funcs: MessageBuilder::body_complex_slice; Message::decode_complex_slice; io::write_message_complex_slice; beve::to_writer_complex_slice; beve::complex_slice_size; beve::read_complex_slice
//@ symbolic: 2 complex f32 pairs (every bit pattern), request id, the header body_format the caller left
//@ bounds: 2 elements of Complex<f32>; query "/c"; unwind 90
//@ oracle: to_bits equality; byte equality of the two frames; Err on the type guard
#[kani::proof]
#[kani::unwind(90)]
fn c08_complex_roundtrip_f32() {
    complex_roundtrip::<2>();
}

// ---- C02: larger buffer variant of the borrowed parser (thorough) ----
//@ prop: C02
//@ tier: thorough
//@ clause: as c02_view_from_slice_total on a 64-byte buffer (payload up to 16 bytes)
//@ funcs: MessageView::from_slice; MessageView::from_slice_exact; Header::decode
//@ symbolic: 64-byte buffer (every bit) and its length 0..=64
//@ bounds: buffer <= 64 bytes
//@ oracle: u128 consistency predicate on the raw bytes; pointer identity of the borrowed ranges
#[kani::proof]
fn c02_view_from_slice_total_64() {
    let buf: [u8; 64] = kani::any();
    let n: usize = kani::any();
    kani::assume(n <= 64);
    let exact: bool = kani::any();
    let r = if exact { MessageView::from_slice_exact(&buf[..n]) } else { MessageView::from_slice(&buf[..n]) };
    let rd = |o: usize| u64::from_le_bytes([buf[o], buf[o + 1], buf[o + 2], buf[o + 3], buf[o + 4], buf[o + 5], buf[o + 6], buf[o + 7]]);
    let (len, q, bl) = (rd(0) as u128, rd(24) as u128, rd(32) as u128);
    let total = 48 + q + bl;
    let ok = n >= 48 && buf[8] == 0x07 && buf[9] == 0x15 && len == total && (if exact { n as u128 == total } else { n as u128 >= total });
    match &r {
        Ok(v) => {
            assert!(ok, "parse succeeded on an inconsistent or truncated frame");
            assert!(v.query.len() as u128 == q && v.body.len() as u128 == bl);
            assert!(v.query.as_ptr() == buf[48..].as_ptr(), "query is not the input range");
            assert!(v.body.as_ptr() == buf[48 + q as usize..].as_ptr(), "body is not the input range");
            kani::cover!(q == 7 && bl == 9);
        }
        Err(_) => assert!(!ok, "a complete consistent frame was rejected"),
    }
    std::mem::forget(r);
}

//@ name: c08_aligned_i16_q0
//@ prop: C08
//@ tier: thorough
//@ clause: alignment-padded form for i16 with a 0-byte query (residue 0 mod 8): the payload starts at an absolute frame offset that is a multiple of the element alignment, stays there through into_wire_bytes, and decodes to the same elements
//@ funcs: MessageBuilder::body_aligned_typed_slice; beve::aligned_typed_slice_size; beve::write_aligned_typed_slice_at; beve::read_aligned_typed_slice; Message::into_wire_bytes; MessageView::from_slice_exact
//@ symbolic: 2 elements of i16 (every bit pattern)
//@ bounds: 2 elements; query length 0 (per-instance constant); unwind 90
//@ oracle: (48 + |query| + body_len - payload) % align_of == 0; to_bits equality
c08_aligned!(c08_aligned_i16_q0, i16, 2, 0);

//@ name: c08_aligned_i16_q1
//@ prop: C08
//@ tier: thorough
//@ clause: alignment-padded form for i16 with a 1-byte query (residue 1 mod 8): the payload starts at an absolute frame offset that is a multiple of the element alignment, stays there through into_wire_bytes, and decodes to the same elements
//@ funcs: MessageBuilder::body_aligned_typed_slice; beve::aligned_typed_slice_size; beve::write_aligned_typed_slice_at; beve::read_aligned_typed_slice; Message::into_wire_bytes; MessageView::from_slice_exact
//@ symbolic: 2 elements of i16 (every bit pattern)
//@ bounds: 2 elements; query length 1 (per-instance constant); unwind 90
//@ oracle: (48 + |query| + body_len - payload) % align_of == 0; to_bits equality
c08_aligned!(c08_aligned_i16_q1, i16, 2, 1);

//@ name: c08_aligned_i16_q2
//@ prop: C08
//@ tier: thorough
//@ clause: alignment-padded form for i16 with a 2-byte query (residue 2 mod 8): the payload starts at an absolute frame offset that is a multiple of the element alignment, stays there through into_wire_bytes, and decodes to the same elements
//@ funcs: MessageBuilder::body_aligned_typed_slice; beve::aligned_typed_slice_size; beve::write_aligned_typed_slice_at; beve::read_aligned_typed_slice; Message::into_wire_bytes; MessageView::from_slice_exact
//@ symbolic: 2 elements of i16 (every bit pattern)
//@ bounds: 2 elements; query length 2 (per-instance constant); unwind 90
//@ oracle: (48 + |query| + body_len - payload) % align_of == 0; to_bits equality
c08_aligned!(c08_aligned_i16_q2, i16, 2, 2);

//@ name: c08_aligned_i16_q3
//@ prop: C08
//@ tier: thorough
//@ clause: alignment-padded form for i16 with a 3-byte query (residue 3 mod 8): the payload starts at an absolute frame offset that is a multiple of the element alignment, stays there through into_wire_bytes, and decodes to the same elements
//@ funcs: MessageBuilder::body_aligned_typed_slice; beve::aligned_typed_slice_size; beve::write_aligned_typed_slice_at; beve::read_aligned_typed_slice; Message::into_wire_bytes; MessageView::from_slice_exact
//@ symbolic: 2 elements of i16 (every bit pattern)
//@ bounds: 2 elements; query length 3 (per-instance constant); unwind 90
//@ oracle: (48 + |query| + body_len - payload) % align_of == 0; to_bits equality
c08_aligned!(c08_aligned_i16_q3, i16, 2, 3);

//@ name: c08_aligned_i16_q4
//@ prop: C08
//@ tier: thorough
//@ clause: alignment-padded form for i16 with a 4-byte query (residue 4 mod 8): the payload starts at an absolute frame offset that is a multiple of the element alignment, stays there through into_wire_bytes, and decodes to the same elements
//@ funcs: MessageBuilder::body_aligned_typed_slice; beve::aligned_typed_slice_size; beve::write_aligned_typed_slice_at; beve::read_aligned_typed_slice; Message::into_wire_bytes; MessageView::from_slice_exact
//@ symbolic: 2 elements of i16 (every bit pattern)
//@ bounds: 2 elements; query length 4 (per-instance constant); unwind 90
//@ oracle: (48 + |query| + body_len - payload) % align_of == 0; to_bits equality
c08_aligned!(c08_aligned_i16_q4, i16, 2, 4);

//@ name: c08_aligned_i16_q5
//@ prop: C08
//@ tier: thorough
//@ clause: alignment-padded form for i16 with a 5-byte query (residue 5 mod 8): the payload starts at an absolute frame offset that is a multiple of the element alignment, stays there through into_wire_bytes, and decodes to the same elements
//@ funcs: MessageBuilder::body_aligned_typed_slice; beve::aligned_typed_slice_size; beve::write_aligned_typed_slice_at; beve::read_aligned_typed_slice; Message::into_wire_bytes; MessageView::from_slice_exact
//@ symbolic: 2 elements of i16 (every bit pattern)
//@ bounds: 2 elements; query length 5 (per-instance constant); unwind 90
//@ oracle: (48 + |query| + body_len - payload) % align_of == 0; to_bits equality
c08_aligned!(c08_aligned_i16_q5, i16, 2, 5);

//@ name: c08_aligned_i16_q6
//@ prop: C08
//@ tier: thorough
//@ clause: alignment-padded form for i16 with a 6-byte query (residue 6 mod 8): the payload starts at an absolute frame offset that is a multiple of the element alignment, stays there through into_wire_bytes, and decodes to the same elements
//@ funcs: MessageBuilder::body_aligned_typed_slice; beve::aligned_typed_slice_size; beve::write_aligned_typed_slice_at; beve::read_aligned_typed_slice; Message::into_wire_bytes; MessageView::from_slice_exact
//@ symbolic: 2 elements of i16 (every bit pattern)
//@ bounds: 2 elements; query length 6 (per-instance constant); unwind 90
//@ oracle: (48 + |query| + body_len - payload) % align_of == 0; to_bits equality
c08_aligned!(c08_aligned_i16_q6, i16, 2, 6);

//@ name: c08_aligned_i16_q7
//@ prop: C08
//@ tier: thorough
//@ clause: alignment-padded form for i16 with a 7-byte query (residue 7 mod 8): the payload starts at an absolute frame offset that is a multiple of the element alignment, stays there through into_wire_bytes, and decodes to the same elements
//@ funcs: MessageBuilder::body_aligned_typed_slice; beve::aligned_typed_slice_size; beve::write_aligned_typed_slice_at; beve::read_aligned_typed_slice; Message::into_wire_bytes; MessageView::from_slice_exact
//@ symbolic: 2 elements of i16 (every bit pattern)
//@ bounds: 2 elements; query length 7 (per-instance constant); unwind 90
//@ oracle: (48 + |query| + body_len - payload) % align_of == 0; to_bits equality
c08_aligned!(c08_aligned_i16_q7, i16, 2, 7);

//@ name: c08_aligned_i16_q8
//@ prop: C08
//@ tier: thorough
//@ clause: alignment-padded form for i16 with a 8-byte query (residue 8 mod 8): the payload starts at an absolute frame offset that is a multiple of the element alignment, stays there through into_wire_bytes, and decodes to the same elements
//@ funcs: MessageBuilder::body_aligned_typed_slice; beve::aligned_typed_slice_size; beve::write_aligned_typed_slice_at; beve::read_aligned_typed_slice; Message::into_wire_bytes; MessageView::from_slice_exact
//@ symbolic: 2 elements of i16 (every bit pattern)
//@ bounds: 2 elements; query length 8 (per-instance constant); unwind 90
//@ oracle: (48 + |query| + body_len - payload) % align_of == 0; to_bits equality
c08_aligned!(c08_aligned_i16_q8, i16, 2, 8);

//@ name: c08_aligned_i64_q0
//@ prop: C08
//@ tier: thorough
//@ clause: alignment-padded form for i64 with a 0-byte query (residue 0 mod 8): the payload starts at an absolute frame offset that is a multiple of the element alignment, stays there through into_wire_bytes, and decodes to the same elements
//@ funcs: MessageBuilder::body_aligned_typed_slice; beve::aligned_typed_slice_size; beve::write_aligned_typed_slice_at; beve::read_aligned_typed_slice; Message::into_wire_bytes; MessageView::from_slice_exact
//@ symbolic: 2 elements of i64 (every bit pattern)
//@ bounds: 2 elements; query length 0 (per-instance constant); unwind 90
//@ oracle: (48 + |query| + body_len - payload) % align_of == 0; to_bits equality
c08_aligned!(c08_aligned_i64_q0, i64, 2, 0);

//@ name: c08_aligned_i64_q1
//@ prop: C08
//@ tier: thorough
//@ clause: alignment-padded form for i64 with a 1-byte query (residue 1 mod 8): the payload starts at an absolute frame offset that is a multiple of the element alignment, stays there through into_wire_bytes, and decodes to the same elements
//@ funcs: MessageBuilder::body_aligned_typed_slice; beve::aligned_typed_slice_size; beve::write_aligned_typed_slice_at; beve::read_aligned_typed_slice; Message::into_wire_bytes; MessageView::from_slice_exact
//@ symbolic: 2 elements of i64 (every bit pattern)
//@ bounds: 2 elements; query length 1 (per-instance constant); unwind 90
//@ oracle: (48 + |query| + body_len - payload) % align_of == 0; to_bits equality
c08_aligned!(c08_aligned_i64_q1, i64, 2, 1);

//@ name: c08_aligned_i64_q2
//@ prop: C08
//@ tier: thorough
//@ clause: alignment-padded form for i64 with a 2-byte query (residue 2 mod 8): the payload starts at an absolute frame offset that is a multiple of the element alignment, stays there through into_wire_bytes, and decodes to the same elements
//@ funcs: MessageBuilder::body_aligned_typed_slice; beve::aligned_typed_slice_size; beve::write_aligned_typed_slice_at; beve::read_aligned_typed_slice; Message::into_wire_bytes; MessageView::from_slice_exact
//@ symbolic: 2 elements of i64 (every bit pattern)
//@ bounds: 2 elements; query length 2 (per-instance constant); unwind 90
//@ oracle: (48 + |query| + body_len - payload) % align_of == 0; to_bits equality
c08_aligned!(c08_aligned_i64_q2, i64, 2, 2);

//@ name: c08_aligned_i64_q3
//@ prop: C08
//@ tier: thorough
//@ clause: alignment-padded form for i64 with a 3-byte query (residue 3 mod 8): the payload starts at an absolute frame offset that is a multiple of the element alignment, stays there through into_wire_bytes, and decodes to the same elements
//@ funcs: MessageBuilder::body_aligned_typed_slice; beve::aligned_typed_slice_size; beve::write_aligned_typed_slice_at; beve::read_aligned_typed_slice; Message::into_wire_bytes; MessageView::from_slice_exact
//@ symbolic: 2 elements of i64 (every bit pattern)
//@ bounds: 2 elements; query length 3 (per-instance constant); unwind 90
//@ oracle: (48 + |query| + body_len - payload) % align_of == 0; to_bits equality
c08_aligned!(c08_aligned_i64_q3, i64, 2, 3);

//@ name: c08_aligned_i64_q4
//@ prop: C08
//@ tier: thorough
//@ clause: alignment-padded form for i64 with a 4-byte query (residue 4 mod 8): the payload starts at an absolute frame offset that is a multiple of the element alignment, stays there through into_wire_bytes, and decodes to the same elements
//@ funcs: MessageBuilder::body_aligned_typed_slice; beve::aligned_typed_slice_size; beve::write_aligned_typed_slice_at; beve::read_aligned_typed_slice; Message::into_wire_bytes; MessageView::from_slice_exact
//@ symbolic: 2 elements of i64 (every bit pattern)
//@ bounds: 2 elements; query length 4 (per-instance constant); unwind 90
//@ oracle: (48 + |query| + body_len - payload) % align_of == 0; to_bits equality
c08_aligned!(c08_aligned_i64_q4, i64, 2, 4);

//@ name: c08_aligned_i64_q5
//@ prop: C08
//@ tier: thorough
//@ clause: alignment-padded form for i64 with a 5-byte query (residue 5 mod 8): the payload starts at an absolute frame offset that is a multiple of the element alignment, stays there through into_wire_bytes, and decodes to the same elements
//@ funcs: MessageBuilder::body_aligned_typed_slice; beve::aligned_typed_slice_size; beve::write_aligned_typed_slice_at; beve::read_aligned_typed_slice; Message::into_wire_bytes; MessageView::from_slice_exact
//@ symbolic: 2 elements of i64 (every bit pattern)
//@ bounds: 2 elements; query length 5 (per-instance constant); unwind 90
//@ oracle: (48 + |query| + body_len - payload) % align_of == 0; to_bits equality
c08_aligned!(c08_aligned_i64_q5, i64, 2, 5);

//@ name: c08_aligned_i64_q6
//@ prop: C08
//@ tier: thorough
//@ clause: alignment-padded form for i64 with a 6-byte query (residue 6 mod 8): the payload starts at an absolute frame offset that is a multiple of the element alignment, stays there through into_wire_bytes, and decodes to the same elements
//@ funcs: MessageBuilder::body_aligned_typed_slice; beve::aligned_typed_slice_size; beve::write_aligned_typed_slice_at; beve::read_aligned_typed_slice; Message::into_wire_bytes; MessageView::from_slice_exact
//@ symbolic: 2 elements of i64 (every bit pattern)
//@ bounds: 2 elements; query length 6 (per-instance constant); unwind 90
//@ oracle: (48 + |query| + body_len - payload) % align_of == 0; to_bits equality
c08_aligned!(c08_aligned_i64_q6, i64, 2, 6);

//@ name: c08_aligned_i64_q7
//@ prop: C08
//@ tier: thorough
//@ clause: alignment-padded form for i64 with a 7-byte query (residue 7 mod 8): the payload starts at an absolute frame offset that is a multiple of the element alignment, stays there through into_wire_bytes, and decodes to the same elements
//@ funcs: MessageBuilder::body_aligned_typed_slice; beve::aligned_typed_slice_size; beve::write_aligned_typed_slice_at; beve::read_aligned_typed_slice; Message::into_wire_bytes; MessageView::from_slice_exact
//@ symbolic: 2 elements of i64 (every bit pattern)
//@ bounds: 2 elements; query length 7 (per-instance constant); unwind 90
//@ oracle: (48 + |query| + body_len - payload) % align_of == 0; to_bits equality
c08_aligned!(c08_aligned_i64_q7, i64, 2, 7);

//@ name: c08_aligned_i64_q8
//@ prop: C08
//@ tier: thorough
//@ clause: alignment-padded form for i64 with a 8-byte query (residue 8 mod 8): the payload starts at an absolute frame offset that is a multiple of the element alignment, stays there through into_wire_bytes, and decodes to the same elements
//@ funcs: MessageBuilder::body_aligned_typed_slice; beve::aligned_typed_slice_size; beve::write_aligned_typed_slice_at; beve::read_aligned_typed_slice; Message::into_wire_bytes; MessageView::from_slice_exact
//@ symbolic: 2 elements of i64 (every bit pattern)
//@ bounds: 2 elements; query length 8 (per-instance constant); unwind 90
//@ oracle: (48 + |query| + body_len - payload) % align_of == 0; to_bits equality
c08_aligned!(c08_aligned_i64_q8, i64, 2, 8);

//@ name: c08_aligned_i8_q0
//@ prop: C08
//@ tier: thorough
//@ clause: alignment-padded form for i8 with a 0-byte query (residue 0 mod 8): the payload starts at an absolute frame offset that is a multiple of the element alignment, stays there through into_wire_bytes, and decodes to the same elements
//@ funcs: MessageBuilder::body_aligned_typed_slice; beve::aligned_typed_slice_size; beve::write_aligned_typed_slice_at; beve::read_aligned_typed_slice; Message::into_wire_bytes; MessageView::from_slice_exact
//@ symbolic: 2 elements of i8 (every bit pattern)
//@ bounds: 2 elements; query length 0 (per-instance constant); unwind 90
//@ oracle: (48 + |query| + body_len - payload) % align_of == 0; to_bits equality
c08_aligned!(c08_aligned_i8_q0, i8, 2, 0);

//@ name: c08_aligned_i8_q1
//@ prop: C08
//@ tier: thorough
//@ clause: alignment-padded form for i8 with a 1-byte query (residue 1 mod 8): the payload starts at an absolute frame offset that is a multiple of the element alignment, stays there through into_wire_bytes, and decodes to the same elements
//@ funcs: MessageBuilder::body_aligned_typed_slice; beve::aligned_typed_slice_size; beve::write_aligned_typed_slice_at; beve::read_aligned_typed_slice; Message::into_wire_bytes; MessageView::from_slice_exact
//@ symbolic: 2 elements of i8 (every bit pattern)
//@ bounds: 2 elements; query length 1 (per-instance constant); unwind 90
//@ oracle: (48 + |query| + body_len - payload) % align_of == 0; to_bits equality
c08_aligned!(c08_aligned_i8_q1, i8, 2, 1);

//@ name: c08_aligned_i8_q2
//@ prop: C08
//@ tier: thorough
//@ clause: alignment-padded form for i8 with a 2-byte query (residue 2 mod 8): the payload starts at an absolute frame offset that is a multiple of the element alignment, stays there through into_wire_bytes, and decodes to the same elements
//@ funcs: MessageBuilder::body_aligned_typed_slice; beve::aligned_typed_slice_size; beve::write_aligned_typed_slice_at; beve::read_aligned_typed_slice; Message::into_wire_bytes; MessageView::from_slice_exact
//@ symbolic: 2 elements of i8 (every bit pattern)
//@ bounds: 2 elements; query length 2 (per-instance constant); unwind 90
//@ oracle: (48 + |query| + body_len - payload) % align_of == 0; to_bits equality
c08_aligned!(c08_aligned_i8_q2, i8, 2, 2);

//@ name: c08_aligned_i8_q3
//@ prop: C08
//@ tier: thorough
//@ clause: alignment-padded form for i8 with a 3-byte query (residue 3 mod 8): the payload starts at an absolute frame offset that is a multiple of the element alignment, stays there through into_wire_bytes, and decodes to the same elements
//@ funcs: MessageBuilder::body_aligned_typed_slice; beve::aligned_typed_slice_size; beve::write_aligned_typed_slice_at; beve::read_aligned_typed_slice; Message::into_wire_bytes; MessageView::from_slice_exact
//@ symbolic: 2 elements of i8 (every bit pattern)
//@ bounds: 2 elements; query length 3 (per-instance constant); unwind 90
//@ oracle: (48 + |query| + body_len - payload) % align_of == 0; to_bits equality
c08_aligned!(c08_aligned_i8_q3, i8, 2, 3);

//@ name: c08_aligned_i8_q4
//@ prop: C08
//@ tier: thorough
//@ clause: alignment-padded form for i8 with a 4-byte query (residue 4 mod 8): the payload starts at an absolute frame offset that is a multiple of the element alignment, stays there through into_wire_bytes, and decodes to the same elements
//@ funcs: MessageBuilder::body_aligned_typed_slice; beve::aligned_typed_slice_size; beve::write_aligned_typed_slice_at; beve::read_aligned_typed_slice; Message::into_wire_bytes; MessageView::from_slice_exact
//@ symbolic: 2 elements of i8 (every bit pattern)
//@ bounds: 2 elements; query length 4 (per-instance constant); unwind 90
//@ oracle: (48 + |query| + body_len - payload) % align_of == 0; to_bits equality
c08_aligned!(c08_aligned_i8_q4, i8, 2, 4);

//@ name: c08_aligned_i8_q5
//@ prop: C08
//@ tier: thorough
//@ clause: alignment-padded form for i8 with a 5-byte query (residue 5 mod 8): the payload starts at an absolute frame offset that is a multiple of the element alignment, stays there through into_wire_bytes, and decodes to the same elements
//@ funcs: MessageBuilder::body_aligned_typed_slice; beve::aligned_typed_slice_size; beve::write_aligned_typed_slice_at; beve::read_aligned_typed_slice; Message::into_wire_bytes; MessageView::from_slice_exact
//@ symbolic: 2 elements of i8 (every bit pattern)
//@ bounds: 2 elements; query length 5 (per-instance constant); unwind 90
//@ oracle: (48 + |query| + body_len - payload) % align_of == 0; to_bits equality
c08_aligned!(c08_aligned_i8_q5, i8, 2, 5);

//@ name: c08_aligned_i8_q6
//@ prop: C08
//@ tier: thorough
//@ clause: alignment-padded form for i8 with a 6-byte query (residue 6 mod 8): the payload starts at an absolute frame offset that is a multiple of the element alignment, stays there through into_wire_bytes, and decodes to the same elements
//@ funcs: MessageBuilder::body_aligned_typed_slice; beve::aligned_typed_slice_size; beve::write_aligned_typed_slice_at; beve::read_aligned_typed_slice; Message::into_wire_bytes; MessageView::from_slice_exact
//@ symbolic: 2 elements of i8 (every bit pattern)
//@ bounds: 2 elements; query length 6 (per-instance constant); unwind 90
//@ oracle: (48 + |query| + body_len - payload) % align_of == 0; to_bits equality
c08_aligned!(c08_aligned_i8_q6, i8, 2, 6);

//@ name: c08_aligned_i8_q7
//@ prop: C08
//@ tier: thorough
//@ clause: alignment-padded form for i8 with a 7-byte query (residue 7 mod 8): the payload starts at an absolute frame offset that is a multiple of the element alignment, stays there through into_wire_bytes, and decodes to the same elements
//@ funcs: MessageBuilder::body_aligned_typed_slice; beve::aligned_typed_slice_size; beve::write_aligned_typed_slice_at; beve::read_aligned_typed_slice; Message::into_wire_bytes; MessageView::from_slice_exact
//@ symbolic: 2 elements of i8 (every bit pattern)
//@ bounds: 2 elements; query length 7 (per-instance constant); unwind 90
//@ oracle: (48 + |query| + body_len - payload) % align_of == 0; to_bits equality
c08_aligned!(c08_aligned_i8_q7, i8, 2, 7);

//@ name: c08_aligned_i8_q8
//@ prop: C08
//@ tier: thorough
//@ clause: alignment-padded form for i8 with a 8-byte query (residue 8 mod 8): the payload starts at an absolute frame offset that is a multiple of the element alignment, stays there through into_wire_bytes, and decodes to the same elements
//@ funcs: MessageBuilder::body_aligned_typed_slice; beve::aligned_typed_slice_size; beve::write_aligned_typed_slice_at; beve::read_aligned_typed_slice; Message::into_wire_bytes; MessageView::from_slice_exact
//@ symbolic: 2 elements of i8 (every bit pattern)
//@ bounds: 2 elements; query length 8 (per-instance constant); unwind 90
//@ oracle: (48 + |query| + body_len - payload) % align_of == 0; to_bits equality
c08_aligned!(c08_aligned_i8_q8, i8, 2, 8);

/// The empty slice between the generic (serde) encoder and the bulk decoder --
/// the direction in which the two codecs do not share a byte layout: a
/// serde-driven encoder cannot pick a typed-array header without an element and
/// emits the empty generic array. No symbolic payload: the empty slice is a single
/// point of the input space, which the property names explicitly; the real
/// serde encoder runs inside the model (an empty sequence is within reach).
fn empty_generic_to_bulk<T: beve::BeveTypedSlice + serde::Serialize>() {
    let id: u64 = kani::any();
    let empty: Vec<T> = Vec::new();
    match Message::builder().id(id).query_str("/v").body_beve(&empty) {
        Ok(b) => {
            let m = b.build();
            kani::cover!(m.body.len() == 2);
            match m.decode_typed_slice::<T>() {
                Ok(v) => {
                    assert!(v.is_empty());
                    std::mem::forget(v);
                }
                Err(ref _e) => assert!(false, "the bulk decoder rejects the generic encoder's empty array"),
            }
            std::mem::forget(m);
        }
        Err(ref _e) => assert!(false, "generic encoder failed on the empty vector"),
    }
    // and the bulk encoder's own empty array still decodes
    let b = Message::builder().id(id).query_str("/v").body_typed_slice::<T>(&empty).build();
    match b.decode_typed_slice::<T>() {
        Ok(v) => {
            assert!(v.is_empty());
            std::mem::forget(v);
        }
        Err(ref _e) => assert!(false, "the bulk decoder rejects the bulk encoder's empty array"),
    }
    std::mem::forget(b);
    std::mem::forget(empty);
}

fn empty_generic_to_bulk_complex<T: beve::BeveTypedSlice + serde::Serialize>()
where
    beve::Complex<T>: serde::Serialize,
{
    let empty: Vec<beve::Complex<T>> = Vec::new();
    match Message::builder().query_str("/v").body_beve(&empty) {
        Ok(b) => {
            let m = b.build();
            kani::cover!(m.body.len() == 2);
            match m.decode_complex_slice::<T>() {
                Ok(v) => {
                    assert!(v.is_empty());
                    std::mem::forget(v);
                }
                Err(ref _e) => assert!(false, "the complex bulk decoder rejects the generic encoder's empty array"),
            }
            std::mem::forget(m);
        }
        Err(ref _e) => assert!(false, "generic encoder failed on the empty vector"),
    }
    std::mem::forget(empty);
}

macro_rules! c08_empty {
    ($name:ident, $f:ident, $t:ty) => {
        #[kani::proof]
        #[kani::stub(std::fmt::format, crate::verif_common::format_stub)]
        #[kani::unwind(20)]
        fn $name() {
            $f::<$t>();
        }
    };
}

//@ name: c08_empty_generic_to_bulk_f64
//@ prop: C08
//@ tier: quick
//@ clause: the empty slice: the bulk decoder reads the generic (serde) encoder's output for an empty vector of f64 (and still reads the bulk encoder's)
//@ funcs: MessageBuilder::body_beve (beve::to_vec, the real serde walk); Message::decode_typed_slice; message::read_typed_slice_body; MessageBuilder::body_typed_slice
//@ symbolic: request id only -- the empty slice is one point of the input space
//@ bounds: the empty slice; element type f64
//@ oracle: Ok(empty) in both directions
//@ stubs: alloc::fmt::format -> empty String
//@ replay: playback
c08_empty!(c08_empty_generic_to_bulk_f64, empty_generic_to_bulk, f64);

//@ name: c08_empty_generic_to_bulk_u8
//@ prop: C08
//@ tier: quick
//@ clause: the empty slice: the bulk decoder reads the generic (serde) encoder's output for an empty vector of u8 (and still reads the bulk encoder's)
//@ funcs: MessageBuilder::body_beve (beve::to_vec, the real serde walk); Message::decode_typed_slice; message::read_typed_slice_body; MessageBuilder::body_typed_slice
//@ symbolic: request id only -- the empty slice is one point of the input space
//@ bounds: the empty slice; element type u8
//@ oracle: Ok(empty) in both directions
//@ stubs: alloc::fmt::format -> empty String
//@ replay: playback
c08_empty!(c08_empty_generic_to_bulk_u8, empty_generic_to_bulk, u8);

//@ name: c08_empty_generic_to_bulk_i32
//@ prop: C08
//@ tier: thorough
//@ clause: the empty slice: the bulk decoder reads the generic (serde) encoder's output for an empty vector of i32 (and still reads the bulk encoder's)
//@ funcs: MessageBuilder::body_beve (beve::to_vec, the real serde walk); Message::decode_typed_slice; message::read_typed_slice_body; MessageBuilder::body_typed_slice
//@ symbolic: request id only -- the empty slice is one point of the input space
//@ bounds: the empty slice; element type i32
//@ oracle: Ok(empty) in both directions
//@ stubs: alloc::fmt::format -> empty String
//@ replay: playback
c08_empty!(c08_empty_generic_to_bulk_i32, empty_generic_to_bulk, i32);

//@ name: c08_empty_generic_to_bulk_complex_f32
//@ prop: C08
//@ tier: quick
//@ clause: the empty slice: the complex bulk decoder reads the generic (serde) encoder's output for an empty vector of complex f32 pairs
//@ funcs: MessageBuilder::body_beve; Message::decode_complex_slice
//@ symbolic: none -- the empty slice is one point of the input space
//@ bounds: the empty slice; element type Complex<f32>
//@ oracle: Ok(empty)
//@ stubs: alloc::fmt::format -> empty String
//@ replay: playback
c08_empty!(c08_empty_generic_to_bulk_complex_f32, empty_generic_to_bulk_complex, f32);
