use super::*;
use crate::verif_common::*;

// ===========================================================================
// C07: route shapes and dispatch paths
// ===========================================================================
const ABC: [u8; 3] = [b'/', b'a', b'b'];

struct NopHandler(u32);
impl HandlerErased for NopHandler {
    fn handle(&self, req: &Message) -> Result<Message, RepeError> {
        let mut m = Message::builder().id(req.header.id).build();
        m.header.ec = self.0;
        Ok(m)
    }
}

fn struct_error_display_stub(_e: &crate::structs::StructError, _f: &mut std::fmt::Formatter<'_>) -> std::fmt::Result {
    Ok(())
}

/// Mount prefix is a per-instance constant (with a symbolic prefix the
/// `trim_end_matches` normalisation makes the SAT query too hard even for 3 bytes);
/// the PATH is symbolic: every string of <= 5 bytes over {'/','a','b'}.
fn registry_mount(prefix: &'static str) {
    let pre = prefix.as_bytes();
    let path = SymStr::<5>::any(&ABC);
    let rr = RegisteredRegistry::new(prefix, Arc::new(Registry::new()));
    assert!(bytes_eq(rr.prefix.as_bytes(), pre), "canonical prefix was altered");
    let h: Arc<dyn HandlerErased> = Arc::new(NopHandler(0));
    let entry = RegistryEntry { prefix: rr.prefix.clone(), raw: h.clone(), dispatched: h };
    let under = under_prefix(pre, path.bytes());
    assert!(entry.matches(path.as_str()) == under, "router prefix match disagrees with the '/'-boundary rule");
    match rr.pointer_for(path.as_str()) {
        Some(ptr) => {
            assert!(under, "handler accepts a path the mount does not own");
            if pre.is_empty() {
                if path.len == 0 {
                    assert!(ptr == "/");
                } else {
                    assert!(bytes_eq(ptr.as_bytes(), path.bytes()));
                }
            } else if path.len == pre.len() {
                assert!(ptr == "/");
            } else {
                assert!(bytes_eq(ptr.as_bytes(), &path.buf[pre.len()..path.len]), "mount stripped more or less than its prefix");
            }
        }
        None => assert!(!under, "handler refuses a path the router hands to it"),
    }
    kani::cover!(under && path.len == 5);
    kani::cover!(!under || pre.is_empty());
    std::mem::forget(entry);
    std::mem::forget(rr);
}

struct DummyStruct;
impl RepeStruct for DummyStruct {
    fn repe_handle(&mut self, _s: &[&str], _b: Option<Value>) -> crate::structs::StructResult<Option<Value>> {
        Ok(None)
    }
}

fn struct_mount(prefix: &'static str) {
    let pre = prefix.as_bytes();
    let path = SymStr::<5>::any(&ABC);
    let rs = RegisteredStruct::<DummyStruct, Mutex<DummyStruct>>::new(prefix, Arc::new(Mutex::new(DummyStruct)));
    assert!(bytes_eq(rs.root.as_bytes(), pre));
    let h: Arc<dyn HandlerErased> = Arc::new(NopHandler(0));
    let entry = StructEntry { root: rs.root.clone(), raw: h.clone(), dispatched: h };
    let under = under_prefix(pre, path.bytes());
    assert!(entry.matches(path.as_str()) == under, "router root match disagrees with the '/'-boundary rule");
    match rs.relative_pointer(path.as_str()) {
        Some(rel) => {
            assert!(under);
            assert!(bytes_eq(rel.as_bytes(), &path.buf[pre.len()..path.len]), "struct mount stripped more or less than its root");
        }
        None => assert!(!under, "struct handler refuses a path the router hands to it"),
    }
    kani::cover!(under && path.len == 5);
    kani::cover!(!under || pre.is_empty());
    std::mem::forget(entry);
    std::mem::forget(rs);
}

macro_rules! c07_mount {
    ($name:ident, $f:ident, $prefix:expr) => {
        #[kani::proof]
        #[kani::stub(std::hash::RandomState::new, crate::verif_common::random_state_stub)]
        #[kani::stub(std::fmt::format, crate::verif_common::format_stub)]
        #[kani::unwind(8)]
        fn $name() {
            $f($prefix);
        }
    };
}

//@ name: c07_registry_mount_root
//@ prop: C07, C14
//@ tier: quick
//@ clause: a registry mounted at "" receives exactly the paths equal to its prefix or extending it at a '/' boundary (so /ab is not under /a); router-side matching and handler-side prefix stripping agree; mounting only strips the prefix
//@ funcs: RegistryEntry::matches; RegisteredRegistry::new; RegisteredRegistry::pointer_for
//@ symbolic: the path: every string of <= 5 bytes over the alphabet {'/','a','b'} (incl. shared string prefixes without a '/' boundary)
//@ bounds: mount prefix "" (per-instance constant); |path| <= 5; unwind 8
//@ oracle: byte-level predicate written from the statement
//@ stubs: RandomState::new -> fixed keys (Registry holds an empty HashMap); alloc::fmt::format -> stub (normalisation branch for prefixes without a leading '/', not taken)
c07_mount!(c07_registry_mount_root, registry_mount, "");

//@ name: c07_struct_mount_root
//@ prop: C07
//@ tier: quick
//@ clause: a struct mounted at "" receives exactly the paths equal to its prefix or extending it at a '/' boundary (so /ab is not under /a); router-side matching and handler-side prefix stripping agree; mounting only strips the prefix
//@ funcs: StructEntry::matches; RegisteredStruct::new; RegisteredStruct::relative_pointer
//@ symbolic: the path: every string of <= 5 bytes over the alphabet {'/','a','b'} (incl. shared string prefixes without a '/' boundary)
//@ bounds: mount prefix "" (per-instance constant); |path| <= 5; unwind 8
//@ oracle: byte-level predicate written from the statement
//@ stubs: RandomState::new -> fixed keys (Registry holds an empty HashMap); alloc::fmt::format -> stub (normalisation branch for prefixes without a leading '/', not taken)
c07_mount!(c07_struct_mount_root, struct_mount, "");

//@ name: c07_registry_mount_a
//@ prop: C07, C14
//@ tier: quick
//@ clause: a registry mounted at "/a" receives exactly the paths equal to its prefix or extending it at a '/' boundary (so /ab is not under /a); router-side matching and handler-side prefix stripping agree; mounting only strips the prefix
//@ funcs: RegistryEntry::matches; RegisteredRegistry::new; RegisteredRegistry::pointer_for
//@ symbolic: the path: every string of <= 5 bytes over the alphabet {'/','a','b'} (incl. shared string prefixes without a '/' boundary)
//@ bounds: mount prefix "/a" (per-instance constant); |path| <= 5; unwind 8
//@ oracle: byte-level predicate written from the statement
//@ stubs: RandomState::new -> fixed keys (Registry holds an empty HashMap); alloc::fmt::format -> stub (normalisation branch for prefixes without a leading '/', not taken)
c07_mount!(c07_registry_mount_a, registry_mount, "/a");

//@ name: c07_struct_mount_a
//@ prop: C07
//@ tier: quick
//@ clause: a struct mounted at "/a" receives exactly the paths equal to its prefix or extending it at a '/' boundary (so /ab is not under /a); router-side matching and handler-side prefix stripping agree; mounting only strips the prefix
//@ funcs: StructEntry::matches; RegisteredStruct::new; RegisteredStruct::relative_pointer
//@ symbolic: the path: every string of <= 5 bytes over the alphabet {'/','a','b'} (incl. shared string prefixes without a '/' boundary)
//@ bounds: mount prefix "/a" (per-instance constant); |path| <= 5; unwind 8
//@ oracle: byte-level predicate written from the statement
//@ stubs: RandomState::new -> fixed keys (Registry holds an empty HashMap); alloc::fmt::format -> stub (normalisation branch for prefixes without a leading '/', not taken)
c07_mount!(c07_struct_mount_a, struct_mount, "/a");

//@ name: c07_registry_mount_ab
//@ prop: C07, C14
//@ tier: thorough
//@ clause: a registry mounted at "/ab" receives exactly the paths equal to its prefix or extending it at a '/' boundary (so /ab is not under /a); router-side matching and handler-side prefix stripping agree; mounting only strips the prefix
//@ funcs: RegistryEntry::matches; RegisteredRegistry::new; RegisteredRegistry::pointer_for
//@ symbolic: the path: every string of <= 5 bytes over the alphabet {'/','a','b'} (incl. shared string prefixes without a '/' boundary)
//@ bounds: mount prefix "/ab" (per-instance constant); |path| <= 5; unwind 8
//@ oracle: byte-level predicate written from the statement
//@ stubs: RandomState::new -> fixed keys (Registry holds an empty HashMap); alloc::fmt::format -> stub (normalisation branch for prefixes without a leading '/', not taken)
c07_mount!(c07_registry_mount_ab, registry_mount, "/ab");

//@ name: c07_struct_mount_ab
//@ prop: C07
//@ tier: thorough
//@ clause: a struct mounted at "/ab" receives exactly the paths equal to its prefix or extending it at a '/' boundary (so /ab is not under /a); router-side matching and handler-side prefix stripping agree; mounting only strips the prefix
//@ funcs: StructEntry::matches; RegisteredStruct::new; RegisteredStruct::relative_pointer
//@ symbolic: the path: every string of <= 5 bytes over the alphabet {'/','a','b'} (incl. shared string prefixes without a '/' boundary)
//@ bounds: mount prefix "/ab" (per-instance constant); |path| <= 5; unwind 8
//@ oracle: byte-level predicate written from the statement
//@ stubs: RandomState::new -> fixed keys (Registry holds an empty HashMap); alloc::fmt::format -> stub (normalisation branch for prefixes without a leading '/', not taken)
c07_mount!(c07_struct_mount_ab, struct_mount, "/ab");

//@ name: c07_registry_mount_a_b
//@ prop: C07, C14
//@ tier: thorough
//@ clause: a registry mounted at "/a/b" receives exactly the paths equal to its prefix or extending it at a '/' boundary (so /ab is not under /a); router-side matching and handler-side prefix stripping agree; mounting only strips the prefix
//@ funcs: RegistryEntry::matches; RegisteredRegistry::new; RegisteredRegistry::pointer_for
//@ symbolic: the path: every string of <= 5 bytes over the alphabet {'/','a','b'} (incl. shared string prefixes without a '/' boundary)
//@ bounds: mount prefix "/a/b" (per-instance constant); |path| <= 5; unwind 8
//@ oracle: byte-level predicate written from the statement
//@ stubs: RandomState::new -> fixed keys (Registry holds an empty HashMap); alloc::fmt::format -> stub (normalisation branch for prefixes without a leading '/', not taken)
c07_mount!(c07_registry_mount_a_b, registry_mount, "/a/b");

//@ name: c07_struct_mount_a_b
//@ prop: C07
//@ tier: thorough
//@ clause: a struct mounted at "/a/b" receives exactly the paths equal to its prefix or extending it at a '/' boundary (so /ab is not under /a); router-side matching and handler-side prefix stripping agree; mounting only strips the prefix
//@ funcs: StructEntry::matches; RegisteredStruct::new; RegisteredStruct::relative_pointer
//@ symbolic: the path: every string of <= 5 bytes over the alphabet {'/','a','b'} (incl. shared string prefixes without a '/' boundary)
//@ bounds: mount prefix "/a/b" (per-instance constant); |path| <= 5; unwind 8
//@ oracle: byte-level predicate written from the statement
//@ stubs: RandomState::new -> fixed keys (Registry holds an empty HashMap); alloc::fmt::format -> stub (normalisation branch for prefixes without a leading '/', not taken)
c07_mount!(c07_struct_mount_a_b, struct_mount, "/a/b");

// ---- struct segments -------------------------------------------------------
const SEG_MAX: usize = 20;
const SEG_BYTES: usize = 4;

struct Recorder {
    count: usize,
    lens: [usize; SEG_MAX],
    bytes: [[u8; SEG_BYTES]; SEG_MAX],
    calls: u32,
}
impl Recorder {
    fn new() -> Self {
        Recorder { count: 0, lens: [0; SEG_MAX], bytes: [[0; SEG_BYTES]; SEG_MAX], calls: 0 }
    }
}
impl RepeStruct for Recorder {
    fn repe_handle(&mut self, segs: &[&str], _b: Option<Value>) -> crate::structs::StructResult<Option<Value>> {
        self.calls += 1;
        self.count = segs.len();
        let mut i = 0;
        while i < segs.len() && i < SEG_MAX {
            let b = segs[i].as_bytes();
            self.lens[i] = b.len();
            let mut j = 0;
            while j < b.len() && j < SEG_BYTES {
                self.bytes[i][j] = b[j];
                j += 1;
            }
            i += 1;
        }
        Ok(None)
    }
}

/// RFC 6901 reference tokenizer (byte loop): split on '/', then ~0 -> '~',
/// ~1 -> '/'. `well_formed` is false on a '~' not followed by 0/1.
struct RefTokens {
    count: usize,
    lens: [usize; 6],
    bytes: [[u8; SEG_BYTES]; 6],
    well_formed: bool,
}
fn ref_tokens(rel: &[u8]) -> RefTokens {
    let mut t = RefTokens { count: 0, lens: [0; 6], bytes: [[0; SEG_BYTES]; 6], well_formed: true };
    if rel.is_empty() {
        return t;
    }
    // rel[0] == '/'
    t.count = 1;
    let mut i = 1;
    while i < rel.len() {
        let c = rel[i];
        if c == b'/' {
            t.count += 1;
        } else if c == b'~' {
            if i + 1 < rel.len() && (rel[i + 1] == b'0' || rel[i + 1] == b'1') {
                let k = t.count - 1;
                t.bytes[k][t.lens[k]] = if rel[i + 1] == b'0' { b'~' } else { b'/' };
                t.lens[k] += 1;
                i += 1;
            } else {
                t.well_formed = false;
            }
        } else {
            let k = t.count - 1;
            t.bytes[k][t.lens[k]] = c;
            t.lens[k] += 1;
        }
        i += 1;
    }
    t
}

fn struct_segments<const N: usize>(alphabet: &[u8]) {
    let rel = SymStr::<N>::any(alphabet);
    kani::assume(rel.len == 0 || rel.buf[0] == b'/');
    let want = ref_tokens(rel.bytes());
    kani::assume(want.well_formed); // malformed escapes are outside the quantifier
    let mut rec = Recorder::new();
    let req = Message::builder().id(7).build();
    let r = dispatch_struct_segments(&mut rec, rel.as_str(), None, &req);
    assert!(r.is_ok());
    assert!(rec.calls == 1, "struct handler not invoked exactly once");
    assert!(rec.count == want.count, "segment count differs from the RFC 6901 token count");
    let mut i = 0;
    while i < want.count {
        assert!(rec.lens[i] == want.lens[i], "segment length differs from the RFC 6901 token");
        let mut j = 0;
        while j < want.lens[i] {
            assert!(rec.bytes[i][j] == want.bytes[i][j], "segment differs from the unescaped RFC 6901 token");
            j += 1;
        }
        i += 1;
    }
    kani::cover!(want.count == N);
    kani::cover!(want.count == 2 && want.lens[0] == 1);
    std::mem::forget(r);
}

//@ prop: C07
//@ tier: experimental
//@ timeout: 3000
//@ clause: the segments a mounted struct sees are exactly the RFC 6901 reference tokens of the remaining path (escape-free paths: empty tokens, trailing slash, root)
//@ funcs: server::dispatch_struct_segments (escape-free fast path); message::create_response_unstamped
//@ symbolic: remaining path of <= 4 bytes over {'/','a','b'} (empty or '/'-prefixed)
//@ bounds: |relative| <= 4 (<= 4 segments); unwind 8
//@ oracle: 25-line byte-loop RFC 6901 tokenizer in the harness
//@ stubs: alloc::fmt::format -> empty String
#[kani::proof]
#[kani::stub(std::fmt::format, crate::verif_common::format_stub)]
#[kani::stub(<crate::structs::StructError as std::fmt::Display>::fmt, struct_error_display_stub)]
#[kani::unwind(8)]
fn c07_struct_segments_plain() {
    struct_segments::<4>(&ABC);
}

//@ prop: C07
//@ tier: experimental
//@ clause: as c07_struct_segments_plain with ~0 / ~1 escapes (well-formed; malformed escapes are outside the quantifier): fast path and json_pointer::parse path both deliver the unescaped tokens
//@ funcs: server::dispatch_struct_segments; json_pointer::parse
//@ symbolic: remaining path of <= 3 bytes over {'/','~','0','1','a'} (all escape shapes that fit)
//@ bounds: |relative| <= 3; unwind 8
//@ oracle: byte-loop RFC 6901 tokenizer
//@ stubs: alloc::fmt::format -> empty String
//@ timeout: 3000
#[kani::proof]
#[kani::stub(std::fmt::format, crate::verif_common::format_stub)]
#[kani::stub(<crate::structs::StructError as std::fmt::Display>::fmt, struct_error_display_stub)]
#[kani::unwind(8)]
fn c07_struct_segments_escaped() {
    struct_segments::<3>(&[b'/', b'~', b'0', b'1', b'a']);
}

fn depth_boundary<const L: usize>() {
    let buf = [b'/'; 18];
    let rel = unsafe { std::str::from_utf8_unchecked(&buf[..L]) };
    let mut rec = Recorder::new();
    let id: u64 = kani::any();
    let req = Message::builder().id(id).build();
    let r = dispatch_struct_segments(&mut rec, rel, None, &req);
    assert!(r.is_ok() && rec.calls == 1);
    assert!(rec.count == L, "segments lost or duplicated at the stack/heap boundary");
    let mut i = 0;
    while i < L {
        assert!(rec.lens[i] == 0);
        i += 1;
    }
    std::mem::forget(r);
}

macro_rules! c07_depth {
    ($name:ident, $l:expr) => {
        #[kani::proof]
        #[kani::stub(std::fmt::format, crate::verif_common::format_stub)]
        #[kani::stub(<crate::structs::StructError as std::fmt::Display>::fmt, struct_error_display_stub)]
        #[kani::unwind(21)]
        fn $name() {
            depth_boundary::<$l>();
        }
    };
}

//@ name: c07_struct_segments_depth_15
//@ prop: C07
//@ tier: experimental
//@ clause: paths of any depth: at the 16-segment stack/heap boundary of the splitter every segment is delivered, in order (depth 15)
//@ funcs: server::dispatch_struct_segments (stack buffer and Vec overflow)
//@ symbolic: request id only - the path is 15 slashes (15 empty segments), a per-instance constant (memchr/split over a symbolic 18-byte string does not finish)
//@ bounds: depth 15; all-empty segments; unwind 21
//@ oracle: count == 15 and every delivered segment is empty
//@ stubs: alloc::fmt::format -> stub; <StructError as Display>::fmt -> writes nothing
c07_depth!(c07_struct_segments_depth_15, 15);

//@ name: c07_struct_segments_depth_16
//@ prop: C07
//@ tier: experimental
//@ clause: paths of any depth: at the 16-segment stack/heap boundary of the splitter every segment is delivered, in order (depth 16)
//@ funcs: server::dispatch_struct_segments (stack buffer and Vec overflow)
//@ symbolic: request id only - the path is 16 slashes (16 empty segments), a per-instance constant (memchr/split over a symbolic 18-byte string does not finish)
//@ bounds: depth 16; all-empty segments; unwind 21
//@ oracle: count == 16 and every delivered segment is empty
//@ stubs: alloc::fmt::format -> stub; <StructError as Display>::fmt -> writes nothing
c07_depth!(c07_struct_segments_depth_16, 16);

//@ name: c07_struct_segments_depth_17
//@ prop: C07
//@ tier: experimental
//@ clause: paths of any depth: at the 16-segment stack/heap boundary of the splitter every segment is delivered, in order (depth 17)
//@ funcs: server::dispatch_struct_segments (stack buffer and Vec overflow)
//@ symbolic: request id only - the path is 17 slashes (17 empty segments), a per-instance constant (memchr/split over a symbolic 18-byte string does not finish)
//@ bounds: depth 17; all-empty segments; unwind 21
//@ oracle: count == 17 and every delivered segment is empty
//@ stubs: alloc::fmt::format -> stub; <StructError as Display>::fmt -> writes nothing
c07_depth!(c07_struct_segments_depth_17, 17);

//@ name: c07_struct_segments_depth_18
//@ prop: C07
//@ tier: experimental
//@ clause: paths of any depth: at the 16-segment stack/heap boundary of the splitter every segment is delivered, in order (depth 18)
//@ funcs: server::dispatch_struct_segments (stack buffer and Vec overflow)
//@ symbolic: request id only - the path is 18 slashes (18 empty segments), a per-instance constant (memchr/split over a symbolic 18-byte string does not finish)
//@ bounds: depth 18; all-empty segments; unwind 21
//@ oracle: count == 18 and every delivered segment is empty
//@ stubs: alloc::fmt::format -> stub; <StructError as Display>::fmt -> writes nothing
c07_depth!(c07_struct_segments_depth_18, 18);

// ---- Router::get precedence -------------------------------------------------
const PATHS: [&str; 14] = ["", "/", "/e", "/r", "/r/", "/r/x", "/r/x/y", "/rx", "/s", "/s/y", "/s/z", "/sy", "/q", "/e/"];

//@ prop: C07
//@ tier: experimental
//@ clause: an exactly registered path always wins over a mounted prefix; mounts receive only their own subtree; unrelated paths resolve to nothing
//@ funcs: Router::get; StructEntry::matches (table assembled in-crate: exact-route map + two struct mounts in either order)
//@ symbolic: the registration order of the two mounts; all 14 boundary paths are looked up (concrete keys); the table is concrete: exact /e, /r/x, /s/y; struct mounts at /r and /s
//@ bounds: concrete routing table and a fixed list of 14 looked-up paths (hashing a symbolic string through std's SipHash/hashbrown is out of reach): close to a concrete run, stated as such
//@ oracle: expected handler per path from the statement, identified by Arc::ptr_eq
//@ stubs: RandomState::new -> fixed keys
#[kani::proof]
#[kani::stub(std::hash::RandomState::new, crate::verif_common::random_state_stub)]
#[kani::stub(std::fmt::format, crate::verif_common::format_stub)]
#[kani::unwind(16)]
fn c07_router_get_precedence() {
    let he: Arc<dyn HandlerErased> = Arc::new(NopHandler(1));
    let hrx: Arc<dyn HandlerErased> = Arc::new(NopHandler(2));
    let hsy: Arc<dyn HandlerErased> = Arc::new(NopHandler(3));
    let reg: Arc<dyn HandlerErased> = Arc::new(NopHandler(4));
    let st: Arc<dyn HandlerErased> = Arc::new(NopHandler(5));
    // The table is assembled directly (in-crate) instead of through the registration
    // API: every insert_route / register_* replaces an Arc'd map, and CBMC then has to
    // encode the drop of Arc<dyn HandlerErased> over every implementor, recursively
    // through MiddlewarePipeline - that did not finish. Registration itself is
    // exercised by c07_middleware_order_independent.
    let mut map: HashMap<String, RouterMapEntry> = HashMap::new();
    map.insert(String::from("/e"), RouterMapEntry { raw: he.clone(), dispatched: he.clone() });
    map.insert(String::from("/r/x"), RouterMapEntry { raw: hrx.clone(), dispatched: hrx.clone() });
    map.insert(String::from("/s/y"), RouterMapEntry { raw: hsy.clone(), dispatched: hsy.clone() });
    let mounts_first: bool = kani::any();
    let (m0, m1) = if mounts_first { ("/r", "/s") } else { ("/s", "/r") };
    let (h0, h1) = if mounts_first { (reg.clone(), st.clone()) } else { (st.clone(), reg.clone()) };
    let router = Router {
        inner: Arc::new(map),
        structs: Arc::new(vec![
            StructEntry { root: String::from(m0), raw: h0.clone(), dispatched: h0 },
            StructEntry { root: String::from(m1), raw: h1.clone(), dispatched: h1 },
        ]),
        registries: Arc::new(Vec::new()),
        middlewares: Arc::new(Vec::new()),
    };
    // every listed path is looked up (concrete keys: hashing a symbolic string through
    // SipHash/hashbrown is out of reach); the symbolic input is the mount order
    let mut i = 0;
    while i < PATHS.len() {
        let got = router.get(PATHS[i]);
        let expect: Option<&Arc<dyn HandlerErased>> = match i {
            2 => Some(&he),
            5 => Some(&hrx),
            9 => Some(&hsy),
            3 | 4 | 6 => Some(&reg),
            8 | 10 => Some(&st),
            _ => None,
        };
        match (&got, expect) {
            (Some(g), Some(e)) => assert!(Arc::ptr_eq(g, e), "lookup resolved to the wrong handler"),
            (None, None) => {}
            (Some(_), None) => panic!("a path outside every route and mount resolved to a handler"),
            (None, Some(_)) => panic!("a registered path did not resolve"),
        }
        std::mem::forget(got);
        i += 1;
    }
    std::mem::forget(router);
}

// ---- middleware -------------------------------------------------------------
static mut MW_RUNS: u32 = 0;

struct CountingMw;
impl Middleware for CountingMw {
    fn handle(&self, req: &Message, next: Next<'_>) -> Result<Message, RepeError> {
        unsafe {
            MW_RUNS += 1;
        }
        next.run(req)
    }
}

struct OffReaderNop;
impl HandlerErased for OffReaderNop {
    fn handle(&self, req: &Message) -> Result<Message, RepeError> {
        let mut m = Message::builder().id(req.header.id).build();
        m.header.ec = 77;
        Ok(m)
    }
    fn execution(&self) -> Execution {
        Execution::OffReader
    }
}

//@ prop: C07
//@ tier: quick
//@ clause: handling a request behind a forwarding middleware chain yields the same response as the bare handler; the middleware runs exactly once per dispatch on every dispatch entry point; execution mode is preserved through the pipeline
//@ funcs: wrap_with_middlewares; MiddlewarePipeline::{handle,handle_with_ctx,execution}; Next::run; Next::new; Next::with_ctx; default HandlerErased::handle_view
//@ symbolic: request id, dispatch entry point (owned handle / handle_with_ctx / borrowed handle_view), chain length 1 or 2
//@ bounds: forwarding middlewares only; custom erased handler
//@ oracle: counter == chain length per dispatch; response equals the bare handler's; wrapped != raw iff the chain is non-empty
#[kani::proof]
#[kani::unwind(6)]
fn c07_middleware_pipeline_transparent() {
    let h: Arc<dyn HandlerErased> = Arc::new(OffReaderNop);
    let none: Arc<Vec<Arc<dyn Middleware>>> = Arc::new(Vec::new());
    let bare = wrap_with_middlewares(&h, &none);
    assert!(Arc::ptr_eq(&bare, &h), "an empty chain must not wrap");
    let two: bool = kani::any();
    let chain: Arc<Vec<Arc<dyn Middleware>>> = if two {
        Arc::new(vec![Arc::new(CountingMw) as Arc<dyn Middleware>, Arc::new(CountingMw) as Arc<dyn Middleware>])
    } else {
        Arc::new(vec![Arc::new(CountingMw) as Arc<dyn Middleware>])
    };
    let got = wrap_with_middlewares(&h, &chain);
    assert!(!Arc::ptr_eq(&got, &h), "route is not wrapped by the middleware pipeline");
    assert!(got.execution() == Execution::OffReader, "execution mode lost through the middleware pipeline");
    let id: u64 = kani::any();
    let req = Message::builder().id(id).query_str("/e").build();
    let ctx = CallContext::detached("/e");
    let before = unsafe { MW_RUNS };
    let resp = match kani::any::<u8>() % 3 {
        0 => got.handle(&req),
        1 => got.handle_with_ctx(&req, &ctx),
        _ => {
            let view = MessageView { header: req.header, query: &req.query, body: &req.body };
            got.handle_view(&view, &ctx)
        }
    };
    let want_runs = if two { 2 } else { 1 };
    assert!(unsafe { MW_RUNS } == before + want_runs, "middleware did not run exactly once each for this dispatch");
    match &resp {
        Ok(r) => assert!(r.header.id == id && r.header.ec == 77, "forwarding middleware changed the response"),
        Err(_) => panic!("forwarding middleware turned a success into an error"),
    }
    std::mem::forget(resp);
    std::mem::forget(req);
    std::mem::forget(got);
    std::mem::forget(chain);
}

//@ prop: C07
//@ tier: experimental
//@ timeout: 3000
//@ clause: middleware applies to a mount whether it was registered before or after that mount (the dispatched slot is rebuilt on registration)
//@ funcs: Router::new; Router::register_middleware; Router::register_struct_shared; wrap_with_middlewares
//@ symbolic: registration order (middleware first / last)
//@ bounds: one forwarding middleware, one struct mount, no exact routes (inserting into the exact-route HashMap needs an unwind bound under which the recursive drop glue of Arc<dyn HandlerErased> -> MiddlewarePipeline explodes; registry mounts own a serde_json tree whose drop glue is out of reach)
//@ oracle: the mount's dispatched slot is wrapped (differs from raw) in both orders, and equals raw without middleware
//@ stubs: RandomState::new -> fixed keys; alloc::fmt::format -> stub
#[kani::proof]
#[kani::stub(std::hash::RandomState::new, crate::verif_common::random_state_stub)]
#[kani::stub(std::fmt::format, crate::verif_common::format_stub)]
#[kani::unwind(4)]
fn c07_middleware_order_independent() {
    let mw_first: bool = kani::any();
    let mut router = Router::new();
    if mw_first {
        let m = router.register_middleware(CountingMw);
        std::mem::forget(m);
    }
    router.register_struct_shared::<DummyStruct, Mutex<DummyStruct>>("/s", Arc::new(Mutex::new(DummyStruct)));
    if !mw_first {
        assert!(Arc::ptr_eq(&router.structs[0].raw, &router.structs[0].dispatched), "mount wrapped although no middleware is registered");
        let m = router.register_middleware(CountingMw);
        std::mem::forget(m);
    }
    assert!(router.structs.len() == 1);
    assert!(!Arc::ptr_eq(&router.structs[0].raw, &router.structs[0].dispatched), "struct mount bypasses middleware");
    assert!(router.middlewares.len() == 1);
    std::mem::forget(router);
}

// ---- owned vs borrowed ---------------------------------------------------------
/// Compare the two responses the way a transport would see them: after the
/// request query has been echoed into a query-less response.
fn same_after_echo(owned: &Message, viewed: &Message, req_query: &[u8]) -> bool {
    let qo: &[u8] = if owned.query.is_empty() { req_query } else { &owned.query };
    let qv: &[u8] = if viewed.query.is_empty() { req_query } else { &viewed.query };
    owned.header.id == viewed.header.id
        && owned.header.ec == viewed.header.ec
        && owned.header.body_format == viewed.header.body_format
        && owned.header.query_format == viewed.header.query_format
        && owned.header.notify == viewed.header.notify
        && bytes_eq(&owned.body, &viewed.body)
        && bytes_eq(qo, qv)
}

/// `bf`: Some(code) pins the body-format code to a per-instance constant (so the
/// serde parser branches a rejected format never takes are pruned by constant
/// propagation instead of being encoded); None leaves it symbolic. The view is
/// built directly from its parts (a frame round trip would route the header
/// through a memcpy and lose the constant).
fn owned_vs_view_filtered(h: &dyn HandlerErased, bf: Option<u16>, body_len: usize) {
    let mut hd = any_header();
    hd.spec = crate::constants::REPE_SPEC;
    hd.version = 1;
    if let Some(code) = bf {
        hd.body_format = code;
    }
    let body_bytes: [u8; 3] = kani::any();
    let q = [b'/', b'f'];
    hd.query_length = 2;
    hd.body_length = body_len as u64;
    hd.length = 50 + body_len as u64;
    let view = MessageView { header: hd, query: &q, body: &body_bytes[..body_len] };
    let ctx = CallContext::detached("/f");
    let owned_req = Message { header: hd, query: q.to_vec(), body: body_bytes[..body_len].to_vec() };
    let a = h.handle_with_ctx(&owned_req, &ctx);
    let b = h.handle_view(&view, &ctx);
    match (&a, &b) {
        (Ok(x), Ok(y)) => assert!(same_after_echo(x, y, &q), "copying and zero-copy paths answer differently"),
        (Err(x), Err(y)) => assert!(x.to_error_code() == y.to_error_code(), "copying and zero-copy paths fail differently"),
        _ => panic!("one dispatch path succeeds where the other fails"),
    }
    kani::cover!(a.is_ok());
    std::mem::forget(a);
    std::mem::forget(b);
    std::mem::forget(owned_req);
}

//@ prop: C07, C08
//@ tier: experimental
//@ timeout: 2400
//@ clause: copying and zero-copy paths agree for the bulk-slice handler on arbitrary body bytes and every body-format code; a body of the wrong format is rejected with InvalidBody rather than reinterpreted
//@ funcs: TypedSliceHandler::<u8,u8>::handle; ::handle_view; decode_typed_slice_param(_view); beve::read_typed_slice::<u8>; create_typed_slice_response_unstamped(_view)
//@ symbolic: all header fields incl. body_format over all u16; 3 arbitrary body bytes (well-formed and malformed BEVE)
//@ bounds: element type u8; body 3 bytes; unwind 8
//@ oracle: responses equal after echo; body_format != Beve => ec == InvalidBody on both paths
//@ stubs: alloc::fmt::format -> empty String
#[kani::proof]
#[kani::stub(std::fmt::format, crate::verif_common::format_stub)]
#[kani::unwind(8)]
fn c07_owned_vs_view_typed_slice_u8() {
    let h = TypedSliceHandler::<u8, u8, _>(|v: Vec<u8>| Ok(v), std::marker::PhantomData);
    owned_vs_view_filtered(&h, None, 3);
}

struct EchoIdHandler;
impl HandlerErased for EchoIdHandler {
    fn handle(&self, req: &Message) -> Result<Message, RepeError> {
        let mut m = Message::builder().id(req.header.id).body_bytes(req.body.clone()).build();
        m.header.ec = req.header.body_format as u32;
        m.header.query_format = req.header.query_format;
        Ok(m)
    }
}

//@ prop: C07
//@ tier: quick
//@ clause: a handler that does not override the borrowed path answers identically through it (the default borrowed path materialises the request and delegates), also behind the off-reader wrapper
//@ funcs: HandlerErased::handle_view (default); HandlerErased::handle_with_ctx (default); OffReaderHandler::{handle,handle_with_ctx,execution}; MessageView::to_message
//@ symbolic: all header fields (id, formats, notify, ec, reserved), 3 body bytes
//@ bounds: custom erased handler echoing id/body/format codes; query "/f"; body 3 bytes; the built-in JSON / typed handlers' paired implementations are outside (their serde parsers get encoded even on rejected formats)
//@ oracle: responses equal field by field
#[kani::proof]
#[kani::unwind(8)]
fn c07_owned_vs_view_default_delegation() {
    let h = OffReaderHandler(EchoIdHandler);
    assert!(h.execution() == Execution::OffReader);
    owned_vs_view_filtered(&h, None, 3);
}

// ---- borrowing bulk route: aligned and plain bodies, owned vs borrowed dispatch ----
fn ref_handler_paths<const ALIGNED: bool>() {
    let xs: [u16; 2] = kani::any();
    let id: u64 = kani::any();
    let q = [b'/', b'v', b'x'];
    let b0 = Message::builder().id(id).query_bytes(q.to_vec()).query_format_code(1);
    let req = if ALIGNED { b0.body_aligned_typed_slice(&xs).build() } else { b0.body_typed_slice(&xs).build() };
    let h = TypedSliceRefHandler::<u16, u16, _>(|v: &[u16]| Ok(v.to_vec()), std::marker::PhantomData);
    let ctx = CallContext::detached("/vx");
    let view = MessageView { header: req.header, query: &req.query, body: &req.body };
    let a = h.handle_with_ctx(&req, &ctx);
    let b = h.handle_view(&view, &ctx);
    match (&a, &b) {
        (Ok(x), Ok(y)) => {
            assert!(same_after_echo(x, y, &q), "copying and zero-copy paths answer differently");
            assert!(x.header.ec == 0, "a well-formed bulk request was rejected");
            // the echo handler returns the elements: the response decodes to the request's elements
            let back = x.decode_typed_slice::<u16>();
            match &back {
                Ok(v) => assert!(v.len() == 2 && v[0] == xs[0] && v[1] == xs[1], "elements changed between request and handler"),
                Err(_) => panic!("response body is not a bulk array"),
            }
            std::mem::forget(back);
        }
        (Err(_), Err(_)) => panic!("a well-formed bulk request failed on both paths"),
        _ => panic!("one dispatch path succeeds where the other fails"),
    }
    std::mem::forget(a);
    std::mem::forget(b);
    std::mem::forget(req);
}

//@ prop: C07, C08
//@ tier: experimental
//@ timeout: 3000
//@ clause: the alignment-padded form sent to a borrowing bulk route yields the same elements through the copying and the zero-copy dispatch paths (borrowed when aligned, copied otherwise)
//@ funcs: TypedSliceRefHandler::<u16,u16>::handle; ::handle_view; decode_typed_slice_ref_param; decode_typed_slice_ref_body; beve::read_aligned_typed_slice_ref; beve::read_aligned_typed_slice; MessageBuilder::body_aligned_typed_slice; create_typed_slice_response_unstamped(_view)
//@ symbolic: 2 elements of u16 (all bit patterns), request id
//@ bounds: aligned wire form; query "/vx" (3 bytes); 2 elements; unwind 80
//@ oracle: responses equal after echo; ec == 0; response decodes to the request's elements
//@ stubs: alloc::fmt::format -> stub
#[kani::proof]
#[kani::stub(std::fmt::format, crate::verif_common::format_stub)]
#[kani::unwind(80)]
fn c08_ref_route_aligned_owned_vs_view() {
    ref_handler_paths::<true>();
}

//@ prop: C07, C08
//@ tier: experimental
//@ timeout: 3000
//@ clause: as c08_ref_route_aligned_owned_vs_view for the plain (unpadded) bulk form sent to the borrowing route
//@ funcs: TypedSliceRefHandler::<u16,u16>::handle; ::handle_view; decode_typed_slice_ref_body; beve::read_typed_slice
//@ symbolic: 2 elements of u16, request id
//@ bounds: plain bulk form; query "/vx"; 2 elements; unwind 80
//@ oracle: responses equal after echo; ec == 0; response decodes to the request's elements
//@ stubs: alloc::fmt::format -> stub
#[kani::proof]
#[kani::stub(std::fmt::format, crate::verif_common::format_stub)]
#[kani::unwind(80)]
fn c08_ref_route_plain_owned_vs_view() {
    ref_handler_paths::<false>();
}

// ===========================================================================
// C08: the empty slice through the borrowing bulk route's decoder
// ===========================================================================
fn empty_to_ref_route<T: beve::BeveTypedSlice + serde::Serialize>() {
    let empty: Vec<T> = Vec::new();
    // the generic (serde) encoder's empty array
    match Message::builder().query_str("/v").body_beve(&empty) {
        Ok(b) => {
            let m = b.build();
            kani::cover!(m.body.len() == 2);
            match decode_typed_slice_ref_body::<T>(&m.body) {
                Ok(s) => {
                    assert!(s.as_slice().is_empty());
                    std::mem::forget(s);
                }
                Err(ref _e) => assert!(false, "the borrowing route's decoder rejects the generic encoder's empty array"),
            }
            match decode_typed_slice_ref_param::<T>(m.header.body_format, &m.body, || Message::builder().build()) {
                Ok(Ok(s)) => {
                    assert!(s.as_slice().is_empty());
                    std::mem::forget(s);
                }
                _ => assert!(false, "the borrowing route refuses the generic encoder's empty array"),
            }
            std::mem::forget(m);
        }
        Err(ref _e) => assert!(false, "generic encoder failed on the empty vector"),
    }
    // the bulk encoder's empty array
    let b = Message::builder().query_str("/v").body_typed_slice::<T>(&empty).build();
    match decode_typed_slice_ref_body::<T>(&b.body) {
        Ok(s) => {
            assert!(s.as_slice().is_empty());
            std::mem::forget(s);
        }
        Err(ref _e) => assert!(false, "the borrowing route's decoder rejects the bulk encoder's empty array"),
    }
    std::mem::forget(b);
    std::mem::forget(empty);
}

//@ name: c08_empty_to_ref_route_f64
//@ prop: C08
//@ tier: quick
//@ clause: the empty slice: the borrowing bulk route's decoder reads the generic (serde) encoder's output for an empty vector of f64, and the bulk encoder's
//@ funcs: MessageBuilder::body_beve (beve::to_vec, the real serde walk); server::decode_typed_slice_ref_body; server::decode_typed_slice_ref_param; message::read_typed_slice_body; MessageBuilder::body_typed_slice
//@ symbolic: none -- the empty slice is one point of the input space
//@ bounds: the empty slice; element type f64; plain (unpadded) wire forms
//@ oracle: Ok(empty) from both encoders
//@ stubs: alloc::fmt::format -> empty String
//@ replay: playback
#[kani::proof]
#[kani::stub(std::fmt::format, crate::verif_common::format_stub)]
#[kani::unwind(20)]
fn c08_empty_to_ref_route_f64() {
    empty_to_ref_route::<f64>();
}

//@ name: c08_empty_to_ref_route_u8
//@ prop: C08
//@ tier: thorough
//@ clause: as c08_empty_to_ref_route_f64 for u8
//@ funcs: MessageBuilder::body_beve; server::decode_typed_slice_ref_body; server::decode_typed_slice_ref_param; message::read_typed_slice_body; MessageBuilder::body_typed_slice
//@ symbolic: none -- the empty slice is one point of the input space
//@ bounds: the empty slice; element type u8; plain (unpadded) wire forms
//@ oracle: Ok(empty) from both encoders
//@ stubs: alloc::fmt::format -> empty String
//@ replay: playback
#[kani::proof]
#[kani::stub(std::fmt::format, crate::verif_common::format_stub)]
#[kani::unwind(20)]
fn c08_empty_to_ref_route_u8() {
    empty_to_ref_route::<u8>();
}
