use super::*;
use crate::verif_common::*;
use crate::error::RepeError;

// ===========================================================================
// C03: the shared dispatch core (route / dispatch_view / dispatch) and the three
// compositions the transports build from it.
// ===========================================================================
static mut INVOCATIONS: u32 = 0;
static mut OUTCOME: u8 = 0; // 0 = Ok (query-less), 1 = Ok with its own query, 2..=5 = Err(variant)
const OWN_Q: [u8; 1] = [b'Z'];

/// Handler whose outcome is chosen by the harness and which counts invocations.
struct Scripted;

fn scripted_result(id: u64) -> Result<Message, RepeError> {
    unsafe {
        INVOCATIONS += 1;
        match OUTCOME {
            0 => {
                let mut m = Message::builder().id(id).body_bytes(vec![7u8]).build();
                m.header.ec = 0;
                Ok(m)
            }
            1 => Ok(Message::builder().id(id).query_bytes(OWN_Q.to_vec()).body_bytes(vec![8u8]).build()),
            2 => Err(RepeError::VersionMismatch(3)),
            3 => Err(RepeError::BufferTooSmall { need: 9, have: 1 }),
            4 => Err(RepeError::UnexpectedBodyFormat { expected: crate::constants::BodyFormat::Json, got: 9 }),
            _ => Err(RepeError::ServerError { code: ErrorCode::ApplicationErrorBase, message: String::new() }),
        }
    }
}

impl HandlerErased for Scripted {
    fn handle(&self, req: &Message) -> Result<Message, RepeError> {
        scripted_result(req.header.id)
    }
    fn handle_view(&self, view: &MessageView, _ctx: &CallContext) -> Result<Message, RepeError> {
        scripted_result(view.header.id)
    }
}

fn outcome_code(o: u8) -> u32 {
    match o {
        0 | 1 => 0,
        2 => ErrorCode::VersionMismatch as u32,
        3 => ErrorCode::ParseError as u32,
        4 => ErrorCode::InvalidBody as u32,
        _ => ErrorCode::ApplicationErrorBase as u32,
    }
}

/// Lookup stub: exactly "/a" is registered (lookup itself is decided in C07).
fn router_get_stub(_r: &Router, path: &str) -> Option<Arc<dyn HandlerErased>> {
    if path.as_bytes().len() == 2 && path.as_bytes()[0] == b'/' && path.as_bytes()[1] == b'a' {
        Some(Arc::new(Scripted))
    } else {
        None
    }
}

/// `Display for RepeError` (thiserror) drives core::fmt; the error TEXT is not
/// part of the property.
fn display_stub(_e: &RepeError, _f: &mut std::fmt::Formatter<'_>) -> std::fmt::Result {
    Ok(())
}

/// Request pieces. The query is a per-instance CONSTANT array that the view
/// borrows directly (parsing it back out of a frame would route the bytes through
/// a memcpy and CBMC would treat them as symbolic again: UTF-8 validation of even
/// one symbolic byte costs minutes, and three dispatch compositions each validate
/// the query). Every header field and the body byte stay symbolic.
struct Req<const Q: usize> {
    header: Header,
    query: [u8; Q],
    body: [u8; 1],
}

fn any_request<const Q: usize>(q: [u8; Q]) -> Req<Q> {
    let mut h = any_header();
    h.spec = crate::constants::REPE_SPEC;
    kani::assume(h.notify <= 1); // the quantifier is notify 0/1
    h.query_length = Q as u64;
    h.body_length = 1;
    h.length = (48 + Q + 1) as u64;
    Req { header: h, query: q, body: [kani::any()] }
}

/// What the statement says the response must be.
struct Expected {
    respond: bool,
    dispatched: bool,
    ec: u32,
}

fn expected<const Q: usize>(r: &Req<Q>, outcome: u8) -> Expected {
    let h = &r.header;
    let q = &r.query[..];
    let notify = h.notify == 1;
    if h.version != 1 {
        return Expected { respond: !notify, dispatched: false, ec: ErrorCode::VersionMismatch as u32 };
    }
    if h.query_format != 1 {
        // not a JSON pointer query (raw binary or unknown code)
        return Expected { respond: !notify, dispatched: false, ec: ErrorCode::InvalidQuery as u32 };
    }
    if from_utf8_ascii_stub(q).is_err() {
        return Expected { respond: !notify, dispatched: false, ec: ErrorCode::InvalidQuery as u32 };
    }
    let registered = Q == 2 && q[0] == b'/' && q[1] == b'a';
    if !registered {
        return Expected { respond: !notify, dispatched: false, ec: ErrorCode::MethodNotFound as u32 };
    }
    Expected { respond: !notify, dispatched: true, ec: outcome_code(outcome) }
}

/// Compose a transport's framing on top of a query-less / own-query response.
fn effective_query<'a>(resp: &'a Message, req_query: &'a [u8]) -> &'a [u8] {
    crate::message::response_echo_query(resp, req_query)
}

fn dispatch_core<const Q: usize, const OUTCOME_K: u8>() {
    // Query bytes are symbolic over the domain on which the from_utf8 stub is exact.
    let q: [u8; Q] = kani::any();
    let mut qi = 0;
    while qi < Q {
        kani::assume(ascii_or_never_valid(q[qi]));
        qi += 1;
    }
    let r = any_request::<Q>(q);
    // The handler outcome is a per-instance constant: a symbolic RepeError variant
    // drags the drop glue of every variant (boxed dyn errors) into the encoding.
    let outcome: u8 = OUTCOME_K;
    unsafe {
        OUTCOME = outcome;
        INVOCATIONS = 0;
    }
    let want = expected(&r, outcome);
    let router = Router::new();
    let view = MessageView { header: r.header, query: &r.query[..], body: &r.body };
    let req_query = &r.query[..];

    // --- path 1: blocking / async TCP: route_request_view + borrowed echo ------------
    let resp1 = route_request_view(&router, &view);
    let inv1 = unsafe { INVOCATIONS };
    assert!(resp1.is_some() == want.respond, "response/notify discipline violated");
    assert!(inv1 == want.dispatched as u32, "handler not invoked exactly once iff dispatched");
    if let Some(m) = &resp1 {
        assert!(m.header.id == r.header.id, "response does not carry the request id");
        assert!(m.header.ec == want.ec, "wrong error code");
        assert!(m.header.notify == 0);
        let eq = effective_query(m, req_query);
        if want.dispatched && outcome == 1 {
            assert!(bytes_eq(eq, &OWN_Q), "handler-chosen query not preserved");
        } else {
            assert!(bytes_eq(eq, req_query), "request query not echoed");
        }
    }

    // --- path 2: WebSocket inline: route + dispatch_view + stamp (borrowed) ----------
    unsafe { INVOCATIONS = 0; }
    let resp2 = match route(&router, &view.header, view.query) {
        RouteOutcome::Dispatch { handler, notify, path } => {
            let ctx = CallContext::detached(path);
            let out = dispatch_view(handler.as_ref(), &view, &ctx, notify);
            std::mem::forget(handler);
            out
        }
        RouteOutcome::Reject { notify, code, message } => {
            (!notify).then(|| create_error_response_unstamped_view(&view, code, message))
        }
    };
    let inv2 = unsafe { INVOCATIONS };
    // --- path 3: WebSocket off-reader: route + dispatch on an owned copy + stamp (owned)
    unsafe { INVOCATIONS = 0; }
    let owned = Message { header: r.header, query: r.query.to_vec(), body: r.body.to_vec() };
    // route on the constant query bytes (the owned copy holds the same bytes)
    let resp3 = match route(&router, &owned.header, &r.query[..]) {
        RouteOutcome::Dispatch { handler, notify, path } => {
            let ctx = CallContext::detached(path);
            let out = dispatch(handler.as_ref(), &owned, &ctx, notify);
            std::mem::forget(handler);
            out
        }
        RouteOutcome::Reject { notify, code, message } => {
            (!notify).then(|| crate::message::create_error_response_like(&owned, code, message))
        }
    };
    let inv3 = unsafe { INVOCATIONS };
    assert!(inv2 == inv1 && inv3 == inv1, "transports disagree on handler invocation");
    assert!(resp2.is_some() == resp1.is_some() && resp3.is_some() == resp1.is_some(), "transports disagree on whether to respond");
    if let (Some(a), Some(b), Some(c)) = (&resp1, &resp2, &resp3) {
        let (qa, qb, qc) = (effective_query(a, req_query), effective_query(b, req_query), effective_query(c, req_query));
        assert!(a.header.id == b.header.id && b.header.id == c.header.id);
        assert!(a.header.ec == b.header.ec && b.header.ec == c.header.ec, "transports report different error codes");
        assert!(a.header.body_format == b.header.body_format && b.header.body_format == c.header.body_format);
        assert!(a.header.query_format == b.header.query_format && b.header.query_format == c.header.query_format);
        assert!(bytes_eq(qa, qb) && bytes_eq(qb, qc), "transports echo different queries");
        assert!(bytes_eq(&a.body, &b.body) && bytes_eq(&b.body, &c.body), "transports return different bodies");
    }
    kani::cover!((want.dispatched && want.respond) || Q != 2);
    kani::cover!((want.dispatched && !want.respond) || Q != 2);
    kani::cover!(!want.dispatched && want.respond && want.ec == ErrorCode::MethodNotFound as u32);
    kani::cover!(!want.dispatched && want.respond && want.ec == ErrorCode::InvalidQuery as u32);
    kani::cover!(!want.dispatched && want.respond && want.ec == ErrorCode::VersionMismatch as u32);
    kani::cover!(!want.dispatched && !want.respond);
    std::mem::forget(resp1);
    std::mem::forget(resp2);
    std::mem::forget(resp3);
    std::mem::forget(owned);
    std::mem::forget(router);
}

macro_rules! c03_core {
    ($name:ident, $q:expr, $outcome:expr) => {
        #[kani::proof]
        #[kani::stub(crate::server::Router::get, router_get_stub)]
        #[kani::stub(std::fmt::format, crate::verif_common::format_stub)]
        #[kani::stub(std::str::from_utf8, crate::verif_common::from_utf8_ascii_stub)]
        #[kani::stub(std::hash::RandomState::new, crate::verif_common::random_state_stub)]
        #[kani::stub(<crate::error::RepeError as std::fmt::Display>::fmt, display_stub)]
        #[kani::unwind(70)]
        fn $name() {
            dispatch_core::<$q, $outcome>();
        }
    };
}

//@ name: c03_dispatch_q2_ok
//@ prop: C03
//@ tier: quick
//@ clause: a request with notify clear gets exactly one response carrying its id and (unless the handler chose its own) its query; a notify gets none; the handler runs exactly once iff dispatched, never when rejected; the error code is VersionMismatch / InvalidQuery (format or UTF-8) / MethodNotFound / the handler's result or error code; the three transport compositions (TCP borrowed, WebSocket inline, WebSocket off-reader) yield the same response fields
//@ funcs: server_request::route; route_request_view; dispatch_view; dispatch; message::create_error_response_unstamped_view; create_error_response_like; response_echo_query; RepeError::to_error_code
//@ symbolic: version, notify (0/1), query_format (all u16), id, reserved, ec, body_format, body byte, the 2 query byte(s) (registered "/a", unregistered, and non-UTF-8 queries all inside)
//@ bounds: |query| = 2, each byte ASCII or >= 0xf8 (the domain on which the UTF-8 stub is exact); handler outcome = Ok, query-less response (per-instance constant: a symbolic RepeError variant drags every variant's drop glue into the encoding); |body| = 1; lookup stubbed to "exactly /a is registered"; unwind 70
//@ oracle: expected (respond?, dispatched?, error code, echoed query) computed from the statement; pairwise equality across the three compositions
//@ stubs: Router::get -> "/a" only (lookup is C07); std::str::from_utf8 -> ASCII check (exact on the assumed byte domain); alloc::fmt::format -> stub; <RepeError as Display>::fmt -> writes nothing; RandomState::new -> fixed keys
c03_core!(c03_dispatch_q2_ok, 2, 0);

//@ name: c03_dispatch_q2_own_query
//@ prop: C03
//@ tier: quick
//@ clause: a request with notify clear gets exactly one response carrying its id and (unless the handler chose its own) its query; a notify gets none; the handler runs exactly once iff dispatched, never when rejected; the error code is VersionMismatch / InvalidQuery (format or UTF-8) / MethodNotFound / the handler's result or error code; the three transport compositions (TCP borrowed, WebSocket inline, WebSocket off-reader) yield the same response fields
//@ funcs: server_request::route; route_request_view; dispatch_view; dispatch; message::create_error_response_unstamped_view; create_error_response_like; response_echo_query; RepeError::to_error_code
//@ symbolic: version, notify (0/1), query_format (all u16), id, reserved, ec, body_format, body byte, the 2 query byte(s) (registered "/a", unregistered, and non-UTF-8 queries all inside)
//@ bounds: |query| = 2, each byte ASCII or >= 0xf8 (the domain on which the UTF-8 stub is exact); handler outcome = Ok with a handler-set response query (per-instance constant: a symbolic RepeError variant drags every variant's drop glue into the encoding); |body| = 1; lookup stubbed to "exactly /a is registered"; unwind 70
//@ oracle: expected (respond?, dispatched?, error code, echoed query) computed from the statement; pairwise equality across the three compositions
//@ stubs: Router::get -> "/a" only (lookup is C07); std::str::from_utf8 -> ASCII check (exact on the assumed byte domain); alloc::fmt::format -> stub; <RepeError as Display>::fmt -> writes nothing; RandomState::new -> fixed keys
c03_core!(c03_dispatch_q2_own_query, 2, 1);

//@ name: c03_dispatch_q2_err_version
//@ prop: C03
//@ tier: quick
//@ clause: a request with notify clear gets exactly one response carrying its id and (unless the handler chose its own) its query; a notify gets none; the handler runs exactly once iff dispatched, never when rejected; the error code is VersionMismatch / InvalidQuery (format or UTF-8) / MethodNotFound / the handler's result or error code; the three transport compositions (TCP borrowed, WebSocket inline, WebSocket off-reader) yield the same response fields
//@ funcs: server_request::route; route_request_view; dispatch_view; dispatch; message::create_error_response_unstamped_view; create_error_response_like; response_echo_query; RepeError::to_error_code
//@ symbolic: version, notify (0/1), query_format (all u16), id, reserved, ec, body_format, body byte, the 2 query byte(s) (registered "/a", unregistered, and non-UTF-8 queries all inside)
//@ bounds: |query| = 2, each byte ASCII or >= 0xf8 (the domain on which the UTF-8 stub is exact); handler outcome = Err(VersionMismatch) (per-instance constant: a symbolic RepeError variant drags every variant's drop glue into the encoding); |body| = 1; lookup stubbed to "exactly /a is registered"; unwind 70
//@ oracle: expected (respond?, dispatched?, error code, echoed query) computed from the statement; pairwise equality across the three compositions
//@ stubs: Router::get -> "/a" only (lookup is C07); std::str::from_utf8 -> ASCII check (exact on the assumed byte domain); alloc::fmt::format -> stub; <RepeError as Display>::fmt -> writes nothing; RandomState::new -> fixed keys
c03_core!(c03_dispatch_q2_err_version, 2, 2);

//@ name: c03_dispatch_q2_err_server
//@ prop: C03
//@ tier: quick
//@ clause: a request with notify clear gets exactly one response carrying its id and (unless the handler chose its own) its query; a notify gets none; the handler runs exactly once iff dispatched, never when rejected; the error code is VersionMismatch / InvalidQuery (format or UTF-8) / MethodNotFound / the handler's result or error code; the three transport compositions (TCP borrowed, WebSocket inline, WebSocket off-reader) yield the same response fields
//@ funcs: server_request::route; route_request_view; dispatch_view; dispatch; message::create_error_response_unstamped_view; create_error_response_like; response_echo_query; RepeError::to_error_code
//@ symbolic: version, notify (0/1), query_format (all u16), id, reserved, ec, body_format, body byte, the 2 query byte(s) (registered "/a", unregistered, and non-UTF-8 queries all inside)
//@ bounds: |query| = 2, each byte ASCII or >= 0xf8 (the domain on which the UTF-8 stub is exact); handler outcome = Err(ServerError{ApplicationErrorBase}) (per-instance constant: a symbolic RepeError variant drags every variant's drop glue into the encoding); |body| = 1; lookup stubbed to "exactly /a is registered"; unwind 70
//@ oracle: expected (respond?, dispatched?, error code, echoed query) computed from the statement; pairwise equality across the three compositions
//@ stubs: Router::get -> "/a" only (lookup is C07); std::str::from_utf8 -> ASCII check (exact on the assumed byte domain); alloc::fmt::format -> stub; <RepeError as Display>::fmt -> writes nothing; RandomState::new -> fixed keys
c03_core!(c03_dispatch_q2_err_server, 2, 5);

//@ name: c03_dispatch_q2_err_buffer
//@ prop: C03
//@ tier: thorough
//@ clause: a request with notify clear gets exactly one response carrying its id and (unless the handler chose its own) its query; a notify gets none; the handler runs exactly once iff dispatched, never when rejected; the error code is VersionMismatch / InvalidQuery (format or UTF-8) / MethodNotFound / the handler's result or error code; the three transport compositions (TCP borrowed, WebSocket inline, WebSocket off-reader) yield the same response fields
//@ funcs: server_request::route; route_request_view; dispatch_view; dispatch; message::create_error_response_unstamped_view; create_error_response_like; response_echo_query; RepeError::to_error_code
//@ symbolic: version, notify (0/1), query_format (all u16), id, reserved, ec, body_format, body byte, the 2 query byte(s) (registered "/a", unregistered, and non-UTF-8 queries all inside)
//@ bounds: |query| = 2, each byte ASCII or >= 0xf8 (the domain on which the UTF-8 stub is exact); handler outcome = Err(BufferTooSmall) (per-instance constant: a symbolic RepeError variant drags every variant's drop glue into the encoding); |body| = 1; lookup stubbed to "exactly /a is registered"; unwind 70
//@ oracle: expected (respond?, dispatched?, error code, echoed query) computed from the statement; pairwise equality across the three compositions
//@ stubs: Router::get -> "/a" only (lookup is C07); std::str::from_utf8 -> ASCII check (exact on the assumed byte domain); alloc::fmt::format -> stub; <RepeError as Display>::fmt -> writes nothing; RandomState::new -> fixed keys
c03_core!(c03_dispatch_q2_err_buffer, 2, 3);

//@ name: c03_dispatch_q2_err_format
//@ prop: C03
//@ tier: thorough
//@ clause: a request with notify clear gets exactly one response carrying its id and (unless the handler chose its own) its query; a notify gets none; the handler runs exactly once iff dispatched, never when rejected; the error code is VersionMismatch / InvalidQuery (format or UTF-8) / MethodNotFound / the handler's result or error code; the three transport compositions (TCP borrowed, WebSocket inline, WebSocket off-reader) yield the same response fields
//@ funcs: server_request::route; route_request_view; dispatch_view; dispatch; message::create_error_response_unstamped_view; create_error_response_like; response_echo_query; RepeError::to_error_code
//@ symbolic: version, notify (0/1), query_format (all u16), id, reserved, ec, body_format, body byte, the 2 query byte(s) (registered "/a", unregistered, and non-UTF-8 queries all inside)
//@ bounds: |query| = 2, each byte ASCII or >= 0xf8 (the domain on which the UTF-8 stub is exact); handler outcome = Err(UnexpectedBodyFormat) (per-instance constant: a symbolic RepeError variant drags every variant's drop glue into the encoding); |body| = 1; lookup stubbed to "exactly /a is registered"; unwind 70
//@ oracle: expected (respond?, dispatched?, error code, echoed query) computed from the statement; pairwise equality across the three compositions
//@ stubs: Router::get -> "/a" only (lookup is C07); std::str::from_utf8 -> ASCII check (exact on the assumed byte domain); alloc::fmt::format -> stub; <RepeError as Display>::fmt -> writes nothing; RandomState::new -> fixed keys
c03_core!(c03_dispatch_q2_err_format, 2, 4);

//@ name: c03_dispatch_q0
//@ prop: C03
//@ tier: quick
//@ clause: a request with notify clear gets exactly one response carrying its id and (unless the handler chose its own) its query; a notify gets none; the handler runs exactly once iff dispatched, never when rejected; the error code is VersionMismatch / InvalidQuery (format or UTF-8) / MethodNotFound / the handler's result or error code; the three transport compositions (TCP borrowed, WebSocket inline, WebSocket off-reader) yield the same response fields
//@ funcs: server_request::route; route_request_view; dispatch_view; dispatch; message::create_error_response_unstamped_view; create_error_response_like; response_echo_query; RepeError::to_error_code
//@ symbolic: version, notify (0/1), query_format (all u16), id, reserved, ec, body_format, body byte, the 0 query byte(s) (registered "/a", unregistered, and non-UTF-8 queries all inside)
//@ bounds: |query| = 0, each byte ASCII or >= 0xf8 (the domain on which the UTF-8 stub is exact); handler outcome = irrelevant (never dispatched) (per-instance constant: a symbolic RepeError variant drags every variant's drop glue into the encoding); |body| = 1; lookup stubbed to "exactly /a is registered"; unwind 70
//@ oracle: expected (respond?, dispatched?, error code, echoed query) computed from the statement; pairwise equality across the three compositions
//@ stubs: Router::get -> "/a" only (lookup is C07); std::str::from_utf8 -> ASCII check (exact on the assumed byte domain); alloc::fmt::format -> stub; <RepeError as Display>::fmt -> writes nothing; RandomState::new -> fixed keys
c03_core!(c03_dispatch_q0, 0, 0);

//@ name: c03_dispatch_q1
//@ prop: C03
//@ tier: thorough
//@ clause: a request with notify clear gets exactly one response carrying its id and (unless the handler chose its own) its query; a notify gets none; the handler runs exactly once iff dispatched, never when rejected; the error code is VersionMismatch / InvalidQuery (format or UTF-8) / MethodNotFound / the handler's result or error code; the three transport compositions (TCP borrowed, WebSocket inline, WebSocket off-reader) yield the same response fields
//@ funcs: server_request::route; route_request_view; dispatch_view; dispatch; message::create_error_response_unstamped_view; create_error_response_like; response_echo_query; RepeError::to_error_code
//@ symbolic: version, notify (0/1), query_format (all u16), id, reserved, ec, body_format, body byte, the 1 query byte(s) (registered "/a", unregistered, and non-UTF-8 queries all inside)
//@ bounds: |query| = 1, each byte ASCII or >= 0xf8 (the domain on which the UTF-8 stub is exact); handler outcome = irrelevant (never dispatched) (per-instance constant: a symbolic RepeError variant drags every variant's drop glue into the encoding); |body| = 1; lookup stubbed to "exactly /a is registered"; unwind 70
//@ oracle: expected (respond?, dispatched?, error code, echoed query) computed from the statement; pairwise equality across the three compositions
//@ stubs: Router::get -> "/a" only (lookup is C07); std::str::from_utf8 -> ASCII check (exact on the assumed byte domain); alloc::fmt::format -> stub; <RepeError as Display>::fmt -> writes nothing; RandomState::new -> fixed keys
c03_core!(c03_dispatch_q1, 1, 0);

//@ prop: C03
//@ tier: experimental
//@ clause: validation of the UTF-8 stub used by the dispatch harnesses: on the byte domain they assume (ASCII or >= 0xf8) the stub accepts exactly what std::str::from_utf8 accepts
//@ funcs: std::str::from_utf8 (real) vs verif_common::from_utf8_ascii_stub
//@ symbolic: one byte from the assumed domain
//@ bounds: 1-byte input (passed once on the unchanged tree in 1404 s using 12.6 GB - too heavy for a registered command)
//@ oracle: is_ok() of both agree
//@ timeout: 1800
#[kani::proof]
#[kani::unwind(70)]
fn c03_utf8_stub_exact_1byte() {
    let b: [u8; 1] = kani::any();
    kani::assume(ascii_or_never_valid(b[0]));
    let real = std::str::from_utf8(&b).is_ok();
    let stub = from_utf8_ascii_stub(&b).is_ok();
    assert!(real == stub, "UTF-8 stub disagrees with std on its assumed domain");
    kani::cover!(real);
    kani::cover!(!real);
}
