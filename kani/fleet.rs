use super::*;
use crate::constants::ErrorCode;

const ALL_KINDS: [std::io::ErrorKind; 39] = {
    use std::io::ErrorKind::*;
    [
        NotFound, PermissionDenied, ConnectionRefused, ConnectionReset, HostUnreachable, NetworkUnreachable,
        ConnectionAborted, NotConnected, AddrInUse, AddrNotAvailable, NetworkDown, BrokenPipe, AlreadyExists,
        WouldBlock, NotADirectory, IsADirectory, DirectoryNotEmpty, ReadOnlyFilesystem, StaleNetworkFileHandle,
        InvalidInput, InvalidData, TimedOut, WriteZero, StorageFull, NotSeekable, QuotaExceeded, FileTooLarge,
        ResourceBusy, ExecutableFileBusy, Deadlock, CrossesDevices, TooManyLinks, InvalidFilename,
        ArgumentListTooLong, Interrupted, Unsupported, UnexpectedEof, OutOfMemory, Other,
    ]
};

/// Environment contract D: the error kinds a dead / refusing / silent TCP peer
/// produces through this crate's clients on Linux (connect refused; reset or
/// aborted connection; write after the reader shut the socket down = EPIPE;
/// response channel closed = ConnectionAborted; EOF; per-call timeout).
fn in_transport_set(k: std::io::ErrorKind) -> bool {
    use std::io::ErrorKind::*;
    matches!(k, ConnectionRefused | ConnectionReset | ConnectionAborted | BrokenPipe | NotConnected | UnexpectedEof | TimedOut)
}

/// Kinds that are plainly not transport failures (bad arguments / undecodable
/// data / resource exhaustion of the local process).
fn plainly_not_transport(k: std::io::ErrorKind) -> bool {
    use std::io::ErrorKind::*;
    matches!(k, InvalidInput | InvalidData | Unsupported | OutOfMemory)
}

//@ name: c19_fleet_retry_classification_io
//@ prop: C19
//@ tier: quick
//@ clause: every transport-level failure a dead, refusing or silent node produces (refused, reset, aborted, broken pipe after the connection died while idle, not connected, EOF, timed out) is classified retryable, so the cached client is invalidated and a later attempt reconnects; plainly non-transport I/O errors are not retried
//@ funcs: fleet::is_retryable_error
//@ symbolic: the io::ErrorKind (selector over all 39 stable kinds)
//@ bounds: simple (kind-only) io::Error values
//@ oracle: environment contract D (listed in the harness) => true; {InvalidInput, InvalidData, Unsupported, OutOfMemory} => false
//@ assumes: D is an assumption about Linux sockets + client.rs/async_client.rs (validated once natively by findings/C19_idle_close_demo.rs)
#[kani::proof]
fn c19_fleet_retry_classification_io() {
    let i: usize = kani::any();
    kani::assume(i < ALL_KINDS.len());
    let k = ALL_KINDS[i];
    let e = RepeError::Io(std::io::Error::from(k));
    let r = is_retryable_error(&e);
    if in_transport_set(k) {
        assert!(r, "a transport-level failure is not retried: the dead cached client is never invalidated and the node stays wedged");
    }
    if plainly_not_transport(k) {
        assert!(!r, "a non-transport I/O error is retried");
    }
    kani::cover!(k == std::io::ErrorKind::BrokenPipe);
    std::mem::forget(e);
}

//@ name: c19_fleet_retry_classification_app
//@ prop: C19
//@ tier: quick
//@ clause: an application error (any error code, any message) and the non-transport protocol errors are never retried
//@ funcs: fleet::is_retryable_error
//@ symbolic: error variant (selector), error code (all 11 codes), numeric payloads (full width)
//@ bounds: message strings are 0 or 2 bytes
//@ oracle: false for ServerError / ResponseIdMismatch / UnexpectedBodyFormat / MessageTooLarge / UnknownEnumValue
#[kani::proof]
fn c19_fleet_retry_classification_app() {
    let code = match kani::any::<u8>() % 11 {
        0 => ErrorCode::Ok,
        1 => ErrorCode::VersionMismatch,
        2 => ErrorCode::InvalidHeader,
        3 => ErrorCode::InvalidQuery,
        4 => ErrorCode::InvalidBody,
        5 => ErrorCode::ParseError,
        6 => ErrorCode::MethodNotFound,
        7 => ErrorCode::Timeout,
        8 => ErrorCode::ResourceExhausted,
        9 => ErrorCode::InternalError,
        _ => ErrorCode::ApplicationErrorBase,
    };
    let e = match kani::any::<u8>() % 5 {
        0 => RepeError::ServerError { code, message: if kani::any() { String::new() } else { String::from("no") } },
        1 => RepeError::ResponseIdMismatch { expected: kani::any(), got: kani::any() },
        2 => RepeError::UnexpectedBodyFormat { expected: crate::constants::BodyFormat::Json, got: kani::any() },
        3 => RepeError::MessageTooLarge { size: kani::any(), limit: kani::any() },
        _ => RepeError::UnknownEnumValue(kani::any()),
    };
    assert!(!is_retryable_error(&e), "an application / protocol-level error reply is retried");
    std::mem::forget(e);
}
