use super::*;
use crate::constants::ErrorCode;

const ALL_KINDS: [std::io::ErrorKind; 39] = {
    use std::io::ErrorKind::*;
    [
        NotFound, PermissionDenied, ConnectionRefused, ConnectionReset, HostUnreachable, NetworkUnreachable,
        ConnectionAborted, NotConnected, AddrInUse, AddrNotAvailable, NetworkDown, BrokenPipe, AlreadyExists,
        WouldBlock, NotADirectory, IsADirectory, DirectoryNotEmpty, ReadOnlyFilesystem, StaleNetworkFileHandle,
        InvalidInput, InvalidData, TimedOut, WriteZero, StorageFull, NotSeekable, QuotaExceeded, FileTooLarge,
        ResourceBusy, ExecutableFileBusy, Deadlock, CrossesDevices, TooManyLinks, InvalidFilename,
        ArgumentListTooLong, Interrupted, Unsupported, UnexpectedEof, OutOfMemory, Other,
    ]
};

/// Environment contract D: the error kinds a dead / refusing / silent TCP peer
/// produces through this crate's clients on Linux (connect refused; reset or
/// aborted connection; write after the reader shut the socket down = EPIPE;
/// response channel closed = ConnectionAborted; EOF; per-call timeout).
fn in_transport_set(k: std::io::ErrorKind) -> bool {
    use std::io::ErrorKind::*;
    matches!(k, ConnectionRefused | ConnectionReset | ConnectionAborted | BrokenPipe | NotConnected | UnexpectedEof | TimedOut)
}

/// Kinds that are plainly not transport failures (bad arguments / undecodable
/// data / resource exhaustion of the local process).
fn plainly_not_transport(k: std::io::ErrorKind) -> bool {
    use std::io::ErrorKind::*;
    matches!(k, InvalidInput | InvalidData | Unsupported | OutOfMemory)
}

//@ name: c19_fleet_retry_classification_io
//@ prop: C19
//@ tier: quick
//@ clause: every transport-level failure a dead, refusing or silent node produces (refused, reset, aborted, broken pipe after the connection died while idle, not connected, EOF, timed out) is classified retryable, so the cached client is invalidated and a later attempt reconnects; plainly non-transport I/O errors are not retried
//@ funcs: fleet::is_retryable_error
//@ symbolic: the io::ErrorKind (selector over all 39 stable kinds)
//@ bounds: simple (kind-only) io::Error values
//@ oracle: environment contract D (listed in the harness) => true; {InvalidInput, InvalidData, Unsupported, OutOfMemory} => false
//@ assumes: D is an assumption about Linux sockets + client.rs/async_client.rs (validated once natively by findings/C19_idle_close_demo.rs)
#[kani::proof]
fn c19_fleet_retry_classification_io() {
    let i: usize = kani::any();
    kani::assume(i < ALL_KINDS.len());
    let k = ALL_KINDS[i];
    let e = RepeError::Io(std::io::Error::from(k));
    let r = is_retryable_error(&e);
    if in_transport_set(k) {
        assert!(r, "a transport-level failure is not retried: the dead cached client is never invalidated and the node stays wedged");
    }
    if plainly_not_transport(k) {
        assert!(!r, "a non-transport I/O error is retried");
    }
    kani::cover!(k == std::io::ErrorKind::BrokenPipe);
    std::mem::forget(e);
}

//@ name: c19_fleet_retry_classification_app
//@ prop: C19
//@ tier: quick
//@ clause: an application error (any error code, any message) and the non-transport protocol errors are never retried
//@ funcs: fleet::is_retryable_error
//@ symbolic: error variant (selector), error code (all 11 codes), numeric payloads (full width)
//@ bounds: message strings are 0 or 2 bytes
//@ oracle: false for ServerError / ResponseIdMismatch / UnexpectedBodyFormat / MessageTooLarge / UnknownEnumValue
#[kani::proof]
fn c19_fleet_retry_classification_app() {
    let code = match kani::any::<u8>() % 11 {
        0 => ErrorCode::Ok,
        1 => ErrorCode::VersionMismatch,
        2 => ErrorCode::InvalidHeader,
        3 => ErrorCode::InvalidQuery,
        4 => ErrorCode::InvalidBody,
        5 => ErrorCode::ParseError,
        6 => ErrorCode::MethodNotFound,
        7 => ErrorCode::Timeout,
        8 => ErrorCode::ResourceExhausted,
        9 => ErrorCode::InternalError,
        _ => ErrorCode::ApplicationErrorBase,
    };
    let e = match kani::any::<u8>() % 5 {
        0 => RepeError::ServerError { code, message: if kani::any() { String::new() } else { String::from("no") } },
        1 => RepeError::ResponseIdMismatch { expected: kani::any(), got: kani::any() },
        2 => RepeError::UnexpectedBodyFormat { expected: crate::constants::BodyFormat::Json, got: kani::any() },
        3 => RepeError::MessageTooLarge { size: kani::any(), limit: kani::any() },
        _ => RepeError::UnknownEnumValue(kani::any()),
    };
    assert!(!is_retryable_error(&e), "an application / protocol-level error reply is retried");
    std::mem::forget(e);
}

// ------------------------------------------------------------------------
// Retry loop of one fleet call over a symbolic per-attempt outcome script.
// The node's sockets are the environment: `Client::connect` and the calls on a
// connected client are stubs that consult the script and keep a shadow record of
// what every attempt saw; ensure_connected, invalidate_client,
// is_retryable_error, lock_node_client and the loop itself are the real code.
const RL_SLOTS: usize = 5;
const RL_CONNS: usize = 6;
const O_REFUSED: u8 = 0; // connect refused (on a live cached connection the call sees a reset instead)
const O_CLOSED: u8 = 1; // accepted then closed / reset / silent until timeout: any transport kind
const O_IO_OTHER: u8 = 2; // undecodable reply surfaced as InvalidData
const O_APP: u8 = 3; // application error reply
const O_OK: u8 = 4;
const S_TRANSPORT: u8 = 1;
const S_NONRETRY_IO: u8 = 2;
const S_APP: u8 = 3;
const S_OK: u8 = 4;
/// Environment contract D again (see `in_transport_set`), as a table.
const TRANSPORT: [std::io::ErrorKind; 7] = {
    use std::io::ErrorKind::*;
    [ConnectionRefused, ConnectionReset, ConnectionAborted, BrokenPipe, NotConnected, UnexpectedEof, TimedOut]
};
static mut RL_SCRIPT: [u8; RL_SLOTS] = [0; RL_SLOTS];
static mut RL_KIND: [u8; RL_SLOTS] = [0; RL_SLOTS];
static mut RL_SEEN: [u8; RL_SLOTS] = [0; RL_SLOTS];
static mut RL_SEEN_KIND: [u8; RL_SLOTS] = [0; RL_SLOTS];
static mut RL_ATTEMPTS: usize = 0;
static mut RL_MAX: usize = 0;
static mut RL_CONNECTS: u64 = 0;
static mut RL_FAILED: [bool; RL_CONNS] = [false; RL_CONNS];
static mut RL_IDLE_DEAD: bool = false;
static mut RL_IDLE_CONN: usize = RL_CONNS - 1;
static mut RL_REUSED_DEAD: bool = false;
static mut RL_SLEEPS: usize = 0;

fn rl_begin_attempt() -> usize {
    unsafe {
        let a = RL_ATTEMPTS;
        assert!(a < RL_MAX, "a fleet call made more attempts than retry_policy.max_attempts");
        RL_ATTEMPTS = a + 1;
        a
    }
}

fn rl_connect_stub<A: std::net::ToSocketAddrs>(_addr: A) -> std::io::Result<Client> {
    unsafe {
        if RL_ATTEMPTS < RL_SLOTS && RL_SCRIPT[RL_ATTEMPTS] == O_REFUSED {
            let a = rl_begin_attempt();
            RL_SEEN[a] = S_TRANSPORT;
            RL_SEEN_KIND[a] = 0;
            return Err(std::io::Error::from(std::io::ErrorKind::ConnectionRefused));
        }
        let k = RL_CONNECTS;
        RL_CONNECTS = k + 1;
        kani::assume((k as usize) < RL_CONNS - 1);
        Ok(crate::client::verif_kani::model_client(k))
    }
}

/// One request/response exchange on a connected client: Ok(marker) or the error
/// the script dictates for this attempt.
fn rl_exchange(this: &Client) -> Result<u64, RepeError> {
    unsafe {
        let a = rl_begin_attempt();
        let conn = crate::client::verif_kani::model_client_conn(this) as usize;
        let idle_dead = conn == RL_IDLE_CONN && RL_IDLE_DEAD;
        if RL_FAILED[conn] || idle_dead {
            // a socket that died while idle, or already failed at transport level,
            // fails (again) whatever the node would answer on a fresh connection
            if RL_FAILED[conn] {
                RL_REUSED_DEAD = true;
            }
            RL_FAILED[conn] = true;
            RL_SEEN[a] = S_TRANSPORT;
            RL_SEEN_KIND[a] = 3;
            return Err(RepeError::Io(std::io::Error::from(std::io::ErrorKind::BrokenPipe)));
        }
        match RL_SCRIPT[a] {
            O_REFUSED | O_CLOSED => {
                let k = if RL_SCRIPT[a] == O_REFUSED { 1 } else { RL_KIND[a] };
                RL_FAILED[conn] = true;
                RL_SEEN[a] = S_TRANSPORT;
                RL_SEEN_KIND[a] = k;
                Err(RepeError::Io(std::io::Error::from(TRANSPORT[k as usize])))
            }
            O_IO_OTHER => {
                RL_SEEN[a] = S_NONRETRY_IO;
                Err(RepeError::Io(std::io::Error::from(std::io::ErrorKind::InvalidData)))
            }
            O_APP => {
                RL_SEEN[a] = S_APP;
                Err(RepeError::ServerError { code: ErrorCode::InternalError, message: String::new() })
            }
            _ => {
                RL_SEEN[a] = S_OK;
                Ok(100 + a as u64)
            }
        }
    }
}

fn rl_call_stub<P: AsRef<str>>(this: &Client, _path: P, _timeout: Duration) -> Result<Message, RepeError> {
    match rl_exchange(this) {
        Ok(marker) => {
            let mut header = crate::header::Header::new();
            header.id = marker;
            Ok(Message { header, query: Vec::new(), body: Vec::new() })
        }
        Err(e) => Err(e),
    }
}

fn rl_call_json_stub<P: AsRef<str>, T: serde::Serialize>(this: &Client, _path: P, _body: &T, _timeout: Duration) -> Result<Value, RepeError> {
    match rl_exchange(this) {
        Ok(marker) => Ok(Value::from(marker)),
        Err(e) => Err(e),
    }
}

fn rl_sleep_stub(_d: Duration) {
    unsafe {
        RL_SLEEPS += 1;
    }
}
fn rl_now_stub() -> Instant {
    crate::verif_common::instant_at(5)
}
fn rl_elapsed_stub(_i: &Instant) -> Duration {
    Duration::ZERO
}

fn rl_setup(max_attempts: usize, cached: bool) -> (Fleet, Arc<NodeState>) {
    let script: [u8; RL_SLOTS] = kani::any();
    let kinds: [u8; RL_SLOTS] = kani::any();
    // (unrolled: keeps the harness free of loops, so the unwind bound is the retry loop's)
    kani::assume(script[0] <= O_OK && (kinds[0] as usize) < TRANSPORT.len() && kinds[0] >= 1);
    kani::assume(script[1] <= O_OK && (kinds[1] as usize) < TRANSPORT.len() && kinds[1] >= 1);
    kani::assume(script[2] <= O_OK && (kinds[2] as usize) < TRANSPORT.len() && kinds[2] >= 1);
    kani::assume(script[3] <= O_OK && (kinds[3] as usize) < TRANSPORT.len() && kinds[3] >= 1);
    kani::assume(script[4] <= O_OK && (kinds[4] as usize) < TRANSPORT.len() && kinds[4] >= 1);
    unsafe {
        RL_SCRIPT = script;
        RL_KIND = kinds;
        RL_MAX = max_attempts;
    }
    let fleet = Fleet {
        nodes: Arc::new(RwLock::new(HashMap::new())),
        options: FleetOptions {
            default_timeout: Duration::from_secs(1),
            retry_policy: RetryPolicy { max_attempts, delay: Duration::from_secs(1) },
        },
    };
    let node = Arc::new(NodeState {
        config: NodeConfig {
            name: String::new(),
            host: String::new(),
            port: 9,
            tags: BTreeSet::new(),
            timeout: Duration::from_secs(1),
        },
        tags: BTreeSet::new(),
        // the node may hold a connection cached by an earlier call, and that
        // connection may have died while idle
        client: Mutex::new(if cached { Some(crate::client::verif_kani::model_client((RL_CONNS - 1) as u64)) } else { None }),
    });
    if cached {
        unsafe {
            RL_IDLE_DEAD = kani::any();
        }
    }
    (fleet, node)
}

/// The property, over the shadow record: `ok_marker` is the marker of the reply
/// the call reported (None: it reported `error`).
fn rl_check(ok_marker: Option<u64>, error: &Option<RepeError>, node: &Arc<NodeState>) {
    let (n, max) = unsafe { (RL_ATTEMPTS, RL_MAX) };
    assert!(n >= 1 && n <= max, "attempt count outside 1..=max_attempts");
    let seen = unsafe { RL_SEEN };
    assert!(n < 2 || seen[0] == S_TRANSPORT, "retried after a reply (success, application error or non-transport error)");
    assert!(n < 3 || seen[1] == S_TRANSPORT, "retried after a reply (success, application error or non-transport error)");
    assert!(n < 4 || seen[2] == S_TRANSPORT, "retried after a reply (success, application error or non-transport error)");
    assert!(n < 5 || seen[3] == S_TRANSPORT, "retried after a reply (success, application error or non-transport error)");
    let (last, last_kind) = unsafe { (RL_SEEN[n - 1], RL_SEEN_KIND[n - 1]) };
    match (ok_marker, error) {
        (Some(m), None) => {
            assert!(last == S_OK && m == 100 + (n as u64 - 1), "reported a success that is not the last attempt's reply");
        }
        (None, Some(RepeError::Io(e))) => {
            if last == S_TRANSPORT {
                assert!(e.kind() == TRANSPORT[last_kind as usize], "reported error is not the last transport error");
            } else {
                assert!(last == S_NONRETRY_IO && e.kind() == std::io::ErrorKind::InvalidData, "reported error is not the last attempt's outcome");
            }
        }
        (None, Some(RepeError::ServerError { code, .. })) => {
            assert!(last == S_APP && *code == ErrorCode::InternalError, "reported an application error that is not the last attempt's reply");
        }
        _ => assert!(false, "result carries neither the last reply nor the last error"),
    }
    assert!(!unsafe { RL_REUSED_DEAD }, "an attempt reused a connection that had already failed at transport level");
    let cached = lock_node_client(&node.client);
    if last == S_TRANSPORT {
        assert!(cached.is_none(), "a transport failure left the dead client cached: the node stays wedged for later calls");
    }
    kani::cover!(n == max && last == S_TRANSPORT);
    kani::cover!(n == max && last == S_OK);
    kani::cover!(seen[0] == S_TRANSPORT && unsafe { RL_SEEN_KIND[0] } == 3);
    std::mem::forget(cached);
}

fn rl_check_message(r: RemoteResult<Message>, node: &Arc<NodeState>) {
    assert!(r.value.is_some() != r.error.is_some(), "result carries both or neither of value and error");
    rl_check(r.value.as_ref().map(|m| m.header.id), &r.error, node);
    std::mem::forget(r);
}

fn rl_message<const MAXA: usize, const CACHED: bool>() {
    let max_attempts: usize = kani::any();
    kani::assume(max_attempts >= 1 && max_attempts <= MAXA);
    let (fleet, node) = rl_setup(max_attempts, CACHED);
    let r = fleet.call_message_with_retry(node.clone(), String::from("/m"));
    rl_check_message(r, &node);
    std::mem::forget(node);
    std::mem::forget(fleet);
}

fn rl_json<const MAXA: usize>() {
    let max_attempts: usize = kani::any();
    kani::assume(max_attempts >= 1 && max_attempts <= MAXA);
    let (fleet, node) = rl_setup(max_attempts, false);
    let r = fleet.call_json_with_retry(node.clone(), String::from("/m"), Some(Value::Null));
    assert!(r.value.is_some() != r.error.is_some(), "result carries both or neither of value and error");
    rl_check(r.value.as_ref().and_then(|v| v.as_u64()), &r.error, &node);
    std::mem::forget(r);
    std::mem::forget(node);
    std::mem::forget(fleet);
}

fn rl_message_second<const MAXA: usize>() {
    let max_attempts: usize = kani::any();
    kani::assume(max_attempts >= 1 && max_attempts <= MAXA);
    let (fleet, node) = rl_setup(max_attempts, false);
    // an earlier successful call leaves its connection (number 0) cached ...
    let script = unsafe { RL_SCRIPT };
    unsafe {
        RL_SCRIPT[0] = O_OK;
    }
    let first = fleet.call_message_with_retry(node.clone(), String::from("/m"));
    assert!(first.value.is_some() && unsafe { RL_ATTEMPTS } == 1);
    std::mem::forget(first);
    // ... which may then die while idle, before the call under test
    unsafe {
        RL_SCRIPT = script;
        RL_ATTEMPTS = 0;
        RL_SEEN = [0; RL_SLOTS];
        RL_IDLE_CONN = 0;
        RL_IDLE_DEAD = kani::any();
    }
    let r = fleet.call_message_with_retry(node.clone(), String::from("/m"));
    rl_check_message(r, &node);
    std::mem::forget(node);
    std::mem::forget(fleet);
}

//@ name: c19_fleet_retry_loop_message_a3
//@ prop: C19
//@ tier: quick
//@ clause: for every per-attempt outcome sequence of one node (connect refused; accepted then closed, reset or silent until timeout, with any transport kind of contract D; undecodable reply; application error; success): at most max_attempts attempts, a further attempt only after a transport failure, the reported result is the last attempt's reply or error, a connection that failed is never used again, and after a transport failure no client stays cached (a later call reconnects); message call on a node with no cached connection
//@ funcs: Fleet::call_message_with_retry / call_json_with_retry, fleet::ensure_connected, fleet::invalidate_client, fleet::is_retryable_error, fleet::lock_node_client
//@ symbolic: max_attempts, the outcome of every attempt (5-letter alphabet x 6 transport kinds), whether a cached connection died while idle
//@ bounds: max_attempts 1..=3; one node, blocking Fleet; unwind 4
//@ oracle: shadow record of what each attempt saw, written by the environment stubs, checked after the call returns
//@ stubs: Client::connect, Client::call_message_with_timeout / call_json_with_timeout -> scripted environment with shadow record; thread::sleep -> counter; Instant::now / elapsed -> constants; RandomState::new -> fixed keys; <ClientInner as Drop>::drop -> no-op; Arc::drop_slow -> leak
//@ assumes: a connection that failed at transport level, or died while idle, fails with BrokenPipe when used; releasing the last reference to shared state (socket shutdown/close, failing pending callers) is outside the model
#[kani::proof]
#[kani::stub(crate::client::Client::connect, rl_connect_stub)]
#[kani::stub(crate::client::Client::call_message_with_timeout, rl_call_stub)]
#[kani::stub(crate::client::Client::call_json_with_timeout, rl_call_json_stub)]
#[kani::stub(std::thread::sleep, rl_sleep_stub)]
#[kani::stub(std::time::Instant::now, rl_now_stub)]
#[kani::stub(std::time::Instant::elapsed, rl_elapsed_stub)]
#[kani::stub(std::hash::RandomState::new, crate::verif_common::random_state_stub)]
#[kani::stub(<crate::client::ClientInner as std::ops::Drop>::drop, crate::client::verif_kani::client_inner_drop_stub)]
#[kani::stub(std::sync::Arc::drop_slow, crate::verif_common::arc_drop_slow_stub)]
#[kani::unwind(4)]
fn c19_fleet_retry_loop_message_a3() {
    rl_message::<3, false>();
}

//@ name: c19_fleet_retry_loop_message_a4
//@ prop: C19
//@ tier: thorough
//@ clause: for every per-attempt outcome sequence of one node (connect refused; accepted then closed, reset or silent until timeout, with any transport kind of contract D; undecodable reply; application error; success): at most max_attempts attempts, a further attempt only after a transport failure, the reported result is the last attempt's reply or error, a connection that failed is never used again, and after a transport failure no client stays cached (a later call reconnects); message call on a node with no cached connection
//@ funcs: Fleet::call_message_with_retry / call_json_with_retry, fleet::ensure_connected, fleet::invalidate_client, fleet::is_retryable_error, fleet::lock_node_client
//@ symbolic: max_attempts, the outcome of every attempt (5-letter alphabet x 6 transport kinds), whether a cached connection died while idle
//@ bounds: max_attempts 1..=4; one node, blocking Fleet; unwind 5
//@ oracle: shadow record of what each attempt saw, written by the environment stubs, checked after the call returns
//@ stubs: Client::connect, Client::call_message_with_timeout / call_json_with_timeout -> scripted environment with shadow record; thread::sleep -> counter; Instant::now / elapsed -> constants; RandomState::new -> fixed keys; <ClientInner as Drop>::drop -> no-op; Arc::drop_slow -> leak
//@ assumes: a connection that failed at transport level, or died while idle, fails with BrokenPipe when used; releasing the last reference to shared state (socket shutdown/close, failing pending callers) is outside the model
#[kani::proof]
#[kani::stub(crate::client::Client::connect, rl_connect_stub)]
#[kani::stub(crate::client::Client::call_message_with_timeout, rl_call_stub)]
#[kani::stub(crate::client::Client::call_json_with_timeout, rl_call_json_stub)]
#[kani::stub(std::thread::sleep, rl_sleep_stub)]
#[kani::stub(std::time::Instant::now, rl_now_stub)]
#[kani::stub(std::time::Instant::elapsed, rl_elapsed_stub)]
#[kani::stub(std::hash::RandomState::new, crate::verif_common::random_state_stub)]
#[kani::stub(<crate::client::ClientInner as std::ops::Drop>::drop, crate::client::verif_kani::client_inner_drop_stub)]
#[kani::stub(std::sync::Arc::drop_slow, crate::verif_common::arc_drop_slow_stub)]
#[kani::unwind(5)]
fn c19_fleet_retry_loop_message_a4() {
    rl_message::<4, false>();
}

//@ name: c19_fleet_retry_loop_json_a2
//@ prop: C19
//@ tier: quick
//@ clause: for every per-attempt outcome sequence of one node (connect refused; accepted then closed, reset or silent until timeout, with any transport kind of contract D; undecodable reply; application error; success): at most max_attempts attempts, a further attempt only after a transport failure, the reported result is the last attempt's reply or error, a connection that failed is never used again, and after a transport failure no client stays cached (a later call reconnects); JSON call (the second copy of the loop) on a node with no cached connection
//@ funcs: Fleet::call_message_with_retry / call_json_with_retry, fleet::ensure_connected, fleet::invalidate_client, fleet::is_retryable_error, fleet::lock_node_client
//@ symbolic: max_attempts, the outcome of every attempt (5-letter alphabet x 6 transport kinds), whether a cached connection died while idle
//@ bounds: max_attempts 1..=2; one node, blocking Fleet; params = Some(_) (the param-less arm, which decodes the reply with serde_json, is outside); unwind 3
//@ oracle: shadow record of what each attempt saw, written by the environment stubs, checked after the call returns
//@ stubs: Client::connect, Client::call_message_with_timeout / call_json_with_timeout -> scripted environment with shadow record; thread::sleep -> counter; Instant::now / elapsed -> constants; RandomState::new -> fixed keys; <ClientInner as Drop>::drop -> no-op; Arc::drop_slow -> leak
//@ assumes: a connection that failed at transport level, or died while idle, fails with BrokenPipe when used; releasing the last reference to shared state (socket shutdown/close, failing pending callers) is outside the model
#[kani::proof]
#[kani::stub(crate::client::Client::connect, rl_connect_stub)]
#[kani::stub(crate::client::Client::call_message_with_timeout, rl_call_stub)]
#[kani::stub(crate::client::Client::call_json_with_timeout, rl_call_json_stub)]
#[kani::stub(std::thread::sleep, rl_sleep_stub)]
#[kani::stub(std::time::Instant::now, rl_now_stub)]
#[kani::stub(std::time::Instant::elapsed, rl_elapsed_stub)]
#[kani::stub(std::hash::RandomState::new, crate::verif_common::random_state_stub)]
#[kani::stub(<crate::client::ClientInner as std::ops::Drop>::drop, crate::client::verif_kani::client_inner_drop_stub)]
#[kani::stub(std::sync::Arc::drop_slow, crate::verif_common::arc_drop_slow_stub)]
#[kani::unwind(3)]
fn c19_fleet_retry_loop_json_a2() {
    rl_json::<2>();
}

//@ name: c19_fleet_retry_loop_json_a3
//@ prop: C19
//@ tier: thorough
//@ clause: for every per-attempt outcome sequence of one node (connect refused; accepted then closed, reset or silent until timeout, with any transport kind of contract D; undecodable reply; application error; success): at most max_attempts attempts, a further attempt only after a transport failure, the reported result is the last attempt's reply or error, a connection that failed is never used again, and after a transport failure no client stays cached (a later call reconnects); JSON call (the second copy of the loop) on a node with no cached connection
//@ funcs: Fleet::call_message_with_retry / call_json_with_retry, fleet::ensure_connected, fleet::invalidate_client, fleet::is_retryable_error, fleet::lock_node_client
//@ symbolic: max_attempts, the outcome of every attempt (5-letter alphabet x 6 transport kinds), whether a cached connection died while idle
//@ bounds: max_attempts 1..=3; one node, blocking Fleet; params = Some(_) (the param-less arm is outside); unwind 4
//@ oracle: shadow record of what each attempt saw, written by the environment stubs, checked after the call returns
//@ stubs: Client::connect, Client::call_message_with_timeout / call_json_with_timeout -> scripted environment with shadow record; thread::sleep -> counter; Instant::now / elapsed -> constants; RandomState::new -> fixed keys; <ClientInner as Drop>::drop -> no-op; Arc::drop_slow -> leak
//@ assumes: a connection that failed at transport level, or died while idle, fails with BrokenPipe when used; releasing the last reference to shared state (socket shutdown/close, failing pending callers) is outside the model
#[kani::proof]
#[kani::stub(crate::client::Client::connect, rl_connect_stub)]
#[kani::stub(crate::client::Client::call_message_with_timeout, rl_call_stub)]
#[kani::stub(crate::client::Client::call_json_with_timeout, rl_call_json_stub)]
#[kani::stub(std::thread::sleep, rl_sleep_stub)]
#[kani::stub(std::time::Instant::now, rl_now_stub)]
#[kani::stub(std::time::Instant::elapsed, rl_elapsed_stub)]
#[kani::stub(std::hash::RandomState::new, crate::verif_common::random_state_stub)]
#[kani::stub(<crate::client::ClientInner as std::ops::Drop>::drop, crate::client::verif_kani::client_inner_drop_stub)]
#[kani::stub(std::sync::Arc::drop_slow, crate::verif_common::arc_drop_slow_stub)]
#[kani::unwind(4)]
fn c19_fleet_retry_loop_json_a3() {
    rl_json::<3>();
}

//@ name: c19_fleet_retry_loop_message_a1_cached
//@ prop: C19
//@ tier: thorough
//@ clause: for every per-attempt outcome sequence of one node (connect refused; accepted then closed, reset or silent until timeout, with any transport kind of contract D; undecodable reply; application error; success): at most max_attempts attempts, a further attempt only after a transport failure, the reported result is the last attempt's reply or error, a connection that failed is never used again, and after a transport failure no client stays cached (a later call reconnects); message call on a node holding a cached connection that may have died while idle
//@ funcs: Fleet::call_message_with_retry / call_json_with_retry, fleet::ensure_connected, fleet::invalidate_client, fleet::is_retryable_error, fleet::lock_node_client
//@ symbolic: max_attempts, the outcome of every attempt (5-letter alphabet x 6 transport kinds), whether a cached connection died while idle
//@ bounds: max_attempts 1; one node, blocking Fleet; unwind 2
//@ oracle: shadow record of what each attempt saw, written by the environment stubs, checked after the call returns
//@ stubs: Client::connect, Client::call_message_with_timeout / call_json_with_timeout -> scripted environment with shadow record; thread::sleep -> counter; Instant::now / elapsed -> constants; RandomState::new -> fixed keys; <ClientInner as Drop>::drop -> no-op; Arc::drop_slow -> leak
//@ assumes: a connection that failed at transport level, or died while idle, fails with BrokenPipe when used; releasing the last reference to shared state (socket shutdown/close, failing pending callers) is outside the model
//@ mem: high
#[kani::proof]
#[kani::stub(crate::client::Client::connect, rl_connect_stub)]
#[kani::stub(crate::client::Client::call_message_with_timeout, rl_call_stub)]
#[kani::stub(crate::client::Client::call_json_with_timeout, rl_call_json_stub)]
#[kani::stub(std::thread::sleep, rl_sleep_stub)]
#[kani::stub(std::time::Instant::now, rl_now_stub)]
#[kani::stub(std::time::Instant::elapsed, rl_elapsed_stub)]
#[kani::stub(std::hash::RandomState::new, crate::verif_common::random_state_stub)]
#[kani::stub(<crate::client::ClientInner as std::ops::Drop>::drop, crate::client::verif_kani::client_inner_drop_stub)]
#[kani::stub(std::sync::Arc::drop_slow, crate::verif_common::arc_drop_slow_stub)]
#[kani::unwind(2)]
fn c19_fleet_retry_loop_message_a1_cached() {
    rl_message::<1, true>();
}

//@ name: c19_fleet_retry_loop_message_a2_cached
//@ prop: C19
//@ tier: thorough
//@ clause: for every per-attempt outcome sequence of one node (connect refused; accepted then closed, reset or silent until timeout, with any transport kind of contract D; undecodable reply; application error; success): at most max_attempts attempts, a further attempt only after a transport failure, the reported result is the last attempt's reply or error, a connection that failed is never used again, and after a transport failure no client stays cached (a later call reconnects); message call on a node holding a cached connection that may have died while idle
//@ funcs: Fleet::call_message_with_retry / call_json_with_retry, fleet::ensure_connected, fleet::invalidate_client, fleet::is_retryable_error, fleet::lock_node_client
//@ symbolic: max_attempts, the outcome of every attempt (5-letter alphabet x 6 transport kinds), whether a cached connection died while idle
//@ bounds: max_attempts 1..=2; one node, blocking Fleet; unwind 3
//@ oracle: shadow record of what each attempt saw, written by the environment stubs, checked after the call returns
//@ stubs: Client::connect, Client::call_message_with_timeout / call_json_with_timeout -> scripted environment with shadow record; thread::sleep -> counter; Instant::now / elapsed -> constants; RandomState::new -> fixed keys; <ClientInner as Drop>::drop -> no-op; Arc::drop_slow -> leak
//@ assumes: a connection that failed at transport level, or died while idle, fails with BrokenPipe when used; releasing the last reference to shared state (socket shutdown/close, failing pending callers) is outside the model
//@ mem: high
#[kani::proof]
#[kani::stub(crate::client::Client::connect, rl_connect_stub)]
#[kani::stub(crate::client::Client::call_message_with_timeout, rl_call_stub)]
#[kani::stub(crate::client::Client::call_json_with_timeout, rl_call_json_stub)]
#[kani::stub(std::thread::sleep, rl_sleep_stub)]
#[kani::stub(std::time::Instant::now, rl_now_stub)]
#[kani::stub(std::time::Instant::elapsed, rl_elapsed_stub)]
#[kani::stub(std::hash::RandomState::new, crate::verif_common::random_state_stub)]
#[kani::stub(<crate::client::ClientInner as std::ops::Drop>::drop, crate::client::verif_kani::client_inner_drop_stub)]
#[kani::stub(std::sync::Arc::drop_slow, crate::verif_common::arc_drop_slow_stub)]
#[kani::unwind(3)]
fn c19_fleet_retry_loop_message_a2_cached() {
    rl_message::<2, true>();
}

//@ name: c19_fleet_retry_loop_message_a3_cached
//@ prop: C19
//@ tier: thorough
//@ clause: for every per-attempt outcome sequence of one node (connect refused; accepted then closed, reset or silent until timeout, with any transport kind of contract D; undecodable reply; application error; success): at most max_attempts attempts, a further attempt only after a transport failure, the reported result is the last attempt's reply or error, a connection that failed is never used again, and after a transport failure no client stays cached (a later call reconnects); message call on a node holding a cached connection that may have died while idle
//@ funcs: Fleet::call_message_with_retry / call_json_with_retry, fleet::ensure_connected, fleet::invalidate_client, fleet::is_retryable_error, fleet::lock_node_client
//@ symbolic: max_attempts, the outcome of every attempt (5-letter alphabet x 6 transport kinds), whether a cached connection died while idle
//@ bounds: max_attempts 1..=3; one node, blocking Fleet; unwind 4
//@ oracle: shadow record of what each attempt saw, written by the environment stubs, checked after the call returns
//@ stubs: Client::connect, Client::call_message_with_timeout / call_json_with_timeout -> scripted environment with shadow record; thread::sleep -> counter; Instant::now / elapsed -> constants; RandomState::new -> fixed keys; <ClientInner as Drop>::drop -> no-op; Arc::drop_slow -> leak
//@ assumes: a connection that failed at transport level, or died while idle, fails with BrokenPipe when used; releasing the last reference to shared state (socket shutdown/close, failing pending callers) is outside the model
//@ mem: high
#[kani::proof]
#[kani::stub(crate::client::Client::connect, rl_connect_stub)]
#[kani::stub(crate::client::Client::call_message_with_timeout, rl_call_stub)]
#[kani::stub(crate::client::Client::call_json_with_timeout, rl_call_json_stub)]
#[kani::stub(std::thread::sleep, rl_sleep_stub)]
#[kani::stub(std::time::Instant::now, rl_now_stub)]
#[kani::stub(std::time::Instant::elapsed, rl_elapsed_stub)]
#[kani::stub(std::hash::RandomState::new, crate::verif_common::random_state_stub)]
#[kani::stub(<crate::client::ClientInner as std::ops::Drop>::drop, crate::client::verif_kani::client_inner_drop_stub)]
#[kani::stub(std::sync::Arc::drop_slow, crate::verif_common::arc_drop_slow_stub)]
#[kani::unwind(4)]
fn c19_fleet_retry_loop_message_a3_cached() {
    rl_message::<3, true>();
}

//@ name: c19_fleet_retry_loop_second_call_a1
//@ prop: C19
//@ tier: thorough
//@ clause: for every per-attempt outcome sequence of one node (connect refused; accepted then closed, reset or silent until timeout, with any transport kind of contract D; undecodable reply; application error; success): at most max_attempts attempts, a further attempt only after a transport failure, the reported result is the last attempt's reply or error, a connection that failed is never used again, and after a transport failure no client stays cached (a later call reconnects); second message call after a successful one cached its connection through the real code, the connection possibly dying while idle in between
//@ funcs: Fleet::call_message_with_retry / call_json_with_retry, fleet::ensure_connected, fleet::invalidate_client, fleet::is_retryable_error, fleet::lock_node_client
//@ symbolic: max_attempts, the outcome of every attempt (5-letter alphabet x 6 transport kinds), whether a cached connection died while idle
//@ bounds: max_attempts 1; two calls; one node, blocking Fleet; unwind 2
//@ oracle: shadow record of what each attempt saw, written by the environment stubs, checked after the call returns
//@ stubs: Client::connect, Client::call_message_with_timeout / call_json_with_timeout -> scripted environment with shadow record; thread::sleep -> counter; Instant::now / elapsed -> constants; RandomState::new -> fixed keys; <ClientInner as Drop>::drop -> no-op; Arc::drop_slow -> leak
//@ assumes: a connection that failed at transport level, or died while idle, fails with BrokenPipe when used; releasing the last reference to shared state (socket shutdown/close, failing pending callers) is outside the model
//@ mem: high
#[kani::proof]
#[kani::stub(crate::client::Client::connect, rl_connect_stub)]
#[kani::stub(crate::client::Client::call_message_with_timeout, rl_call_stub)]
#[kani::stub(crate::client::Client::call_json_with_timeout, rl_call_json_stub)]
#[kani::stub(std::thread::sleep, rl_sleep_stub)]
#[kani::stub(std::time::Instant::now, rl_now_stub)]
#[kani::stub(std::time::Instant::elapsed, rl_elapsed_stub)]
#[kani::stub(std::hash::RandomState::new, crate::verif_common::random_state_stub)]
#[kani::stub(<crate::client::ClientInner as std::ops::Drop>::drop, crate::client::verif_kani::client_inner_drop_stub)]
#[kani::stub(std::sync::Arc::drop_slow, crate::verif_common::arc_drop_slow_stub)]
#[kani::unwind(2)]
fn c19_fleet_retry_loop_second_call_a1() {
    rl_message_second::<1>();
}

//@ name: c19_fleet_retry_loop_witness
//@ prop: C19
//@ tier: quick
//@ clause: vacuity witness: the retry-loop harness reaches its checks with three attempts made
//@ funcs: Fleet::call_message_with_retry
//@ expect: fail
//@ stubs: as c19_fleet_retry_loop_message_a3
#[kani::proof]
#[kani::stub(crate::client::Client::connect, rl_connect_stub)]
#[kani::stub(crate::client::Client::call_message_with_timeout, rl_call_stub)]
#[kani::stub(std::thread::sleep, rl_sleep_stub)]
#[kani::stub(std::time::Instant::now, rl_now_stub)]
#[kani::stub(std::time::Instant::elapsed, rl_elapsed_stub)]
#[kani::stub(std::hash::RandomState::new, crate::verif_common::random_state_stub)]
#[kani::stub(<crate::client::ClientInner as std::ops::Drop>::drop, crate::client::verif_kani::client_inner_drop_stub)]
#[kani::stub(std::sync::Arc::drop_slow, crate::verif_common::arc_drop_slow_stub)]
#[kani::unwind(4)]
fn c19_fleet_retry_loop_witness() {
    let (fleet, node) = rl_setup(3, false);
    let r = fleet.call_message_with_retry(node.clone(), String::from("/m"));
    if unsafe { RL_ATTEMPTS } == 3 && r.value.is_some() {
        assert!(false, "verif-witness");
    }
    std::mem::forget(r);
    std::mem::forget(node);
    std::mem::forget(fleet);
}
