use super::*;
use crate::verif_common::*;

// ===========================================================================
// C09: ChunkSink -> channel -> Session::pull pipeline (sequential composition)
// The std sync_channel is replaced by its FIFO contract (send appends, recv pops,
// recv on empty+closed fails). The producer runs to completion first, then the
// consumer pulls: by Kahn determinism the delivered sequence does not depend on
// channel depth or relative speed (trusted argument, not a solver result).
// ===========================================================================
const FIFO_CAP: usize = 10;
static mut FIFO: [[u64; 4]; FIFO_CAP] = [[0; 4]; FIFO_CAP];
static mut FIFO_HEAD: usize = 0;
static mut FIFO_TAIL: usize = 0;

fn send_stub<T>(_tx: &SyncSender<T>, t: T) -> Result<(), std::sync::mpsc::SendError<T>> {
    unsafe {
        assert!(std::mem::size_of::<T>() <= 32 && std::mem::align_of::<T>() <= 8);
        kani::assume(FIFO_TAIL < FIFO_CAP);
        std::ptr::write(FIFO[FIFO_TAIL].as_mut_ptr() as *mut T, t);
        FIFO_TAIL += 1;
        Ok(())
    }
}

fn recv_stub<T>(_rx: &Receiver<T>) -> Result<T, std::sync::mpsc::RecvError> {
    unsafe {
        if FIFO_HEAD == FIFO_TAIL {
            // producer finished and dropped its sender: empty means closed
            return Err(std::sync::mpsc::RecvError);
        }
        let v = std::ptr::read(FIFO[FIFO_HEAD].as_ptr() as *const T);
        FIFO_HEAD += 1;
        Ok(v)
    }
}

/// N payload bytes written in two calls (W1, N-W1) through a ChunkSink of CB-byte
/// chunks; then pulled to the end.
fn pipeline<const N: usize, const CB: usize, const W1: usize>() {
    let payload: [u8; N] = kani::any();
    let (tx, rx) = sync_channel::<Msg>(1);
    let mut sink = ChunkSink::new(tx.clone(), CB);
    sink.write_all(&payload[..W1]).unwrap();
    sink.write_all(&payload[W1..]).unwrap();
    sink.flush().unwrap(); // must not emit a short chunk
    sink.flush_remaining().unwrap();
    tx.send(Msg::End).unwrap();

    let mut s = Session { rx, lookahead: None, done: false };
    let mut got = [0u8; 8];
    let mut n = 0usize;
    let mut pulls = 0usize;
    let mut lasts = 0usize;
    let mut ended = false;
    // at most N/CB + 2 pulls are needed; bound the loop by 8
    while pulls < 8 && !ended {
        let (chunk, last) = match s.pull() {
            Ok(x) => x,
            Err(_) => panic!("a clean production surfaced as an error"),
        };
        pulls += 1;
        assert!(chunk.len() <= CB, "chunk larger than the configured chunk size");
        if !last {
            assert!(chunk.len() == CB, "a non-final chunk is not full-size");
        }
        let mut i = 0;
        while i < chunk.len() {
            got[n] = chunk[i];
            n += 1;
            i += 1;
        }
        // the `last` flag rides in a 1-byte raw-binary query
        let req = Message::builder().id(5).build();
        let resp = chunk_response(&req, chunk, last);
        assert!(resp.query.len() == 1 && resp.query[0] == last as u8 && resp.header.id == 5);
        std::mem::forget(resp);
        if last {
            lasts += 1;
            ended = true;
        }
    }
    assert!(ended && lasts == 1, "stream did not end with exactly one final chunk");
    assert!(n == N, "pulled byte count differs from the produced byte count");
    let mut k = 0;
    while k < N {
        assert!(got[k] == payload[k], "pulled bytes differ from the produced bytes");
        k += 1;
    }
    if N == 0 {
        assert!(pulls == 1, "an empty payload must yield a single empty final chunk");
    }
    // expected number of pulls: ceil(N/CB), or 1 for the empty payload
    let want_pulls = if N == 0 { 1 } else { (N + CB - 1) / CB };
    assert!(pulls == want_pulls);
    std::mem::forget(s);
    std::mem::forget(sink);
    std::mem::forget(tx);
}

macro_rules! c09_pipeline {
    ($name:ident, $n:expr, $cb:expr, $w1:expr) => {
        #[kani::proof]
        #[kani::stub(std::sync::mpsc::SyncSender::send, send_stub)]
        #[kani::stub(std::sync::mpsc::Receiver::recv, recv_stub)]
        #[kani::unwind(10)]
        fn $name() {
            pipeline::<$n, $cb, $w1>();
        }
    };
}

//@ name: c09_pipeline_n0_cb2_w0
//@ prop: C09
//@ tier: quick
//@ clause: the concatenation of pulled chunks is exactly the produced byte stream; exactly one pulled chunk, the final one, carries the end marker; non-final chunks are full-size; an empty payload yields a single empty final chunk; the last flag is the 1-byte response query
//@ funcs: ChunkSink::new; ChunkSink::write; ChunkSink::send_chunk; ChunkSink::flush; ChunkSink::flush_remaining; Session::pull; Session::recv; value_stream::chunk_response
//@ symbolic: all payload bytes
//@ bounds: payload 0 bytes, chunk size 2, written as 0+0 bytes (per-instance constants: boundary residue 0 mod 2 = 0); uncompressed; channel replaced by its FIFO contract (producer runs to completion first); unwind 10
//@ oracle: byte-for-byte comparison with the payload; exactly-one-last; pull count = ceil(n/chunk) (1 for empty)
//@ stubs: mpsc::SyncSender::send / Receiver::recv -> in-memory FIFO (std channel blocking/futex paths not modelled)
c09_pipeline!(c09_pipeline_n0_cb2_w0, 0, 2, 0);

//@ name: c09_pipeline_n3_cb2_w1
//@ prop: C09
//@ tier: quick
//@ clause: the concatenation of pulled chunks is exactly the produced byte stream; exactly one pulled chunk, the final one, carries the end marker; non-final chunks are full-size; an empty payload yields a single empty final chunk; the last flag is the 1-byte response query
//@ funcs: ChunkSink::new; ChunkSink::write; ChunkSink::send_chunk; ChunkSink::flush; ChunkSink::flush_remaining; Session::pull; Session::recv; value_stream::chunk_response
//@ symbolic: all payload bytes
//@ bounds: payload 3 bytes, chunk size 2, written as 1+2 bytes (per-instance constants: boundary residue 3 mod 2 = 1); uncompressed; channel replaced by its FIFO contract (producer runs to completion first); unwind 10
//@ oracle: byte-for-byte comparison with the payload; exactly-one-last; pull count = ceil(n/chunk) (1 for empty)
//@ stubs: mpsc::SyncSender::send / Receiver::recv -> in-memory FIFO (std channel blocking/futex paths not modelled)
c09_pipeline!(c09_pipeline_n3_cb2_w1, 3, 2, 1);

//@ name: c09_pipeline_n4_cb2_w3
//@ prop: C09
//@ tier: quick
//@ clause: the concatenation of pulled chunks is exactly the produced byte stream; exactly one pulled chunk, the final one, carries the end marker; non-final chunks are full-size; an empty payload yields a single empty final chunk; the last flag is the 1-byte response query
//@ funcs: ChunkSink::new; ChunkSink::write; ChunkSink::send_chunk; ChunkSink::flush; ChunkSink::flush_remaining; Session::pull; Session::recv; value_stream::chunk_response
//@ symbolic: all payload bytes
//@ bounds: payload 4 bytes, chunk size 2, written as 3+1 bytes (per-instance constants: boundary residue 4 mod 2 = 0); uncompressed; channel replaced by its FIFO contract (producer runs to completion first); unwind 10
//@ oracle: byte-for-byte comparison with the payload; exactly-one-last; pull count = ceil(n/chunk) (1 for empty)
//@ stubs: mpsc::SyncSender::send / Receiver::recv -> in-memory FIFO (std channel blocking/futex paths not modelled)
c09_pipeline!(c09_pipeline_n4_cb2_w3, 4, 2, 3);

//@ name: c09_pipeline_n5_cb3_w2
//@ prop: C09
//@ tier: quick
//@ clause: the concatenation of pulled chunks is exactly the produced byte stream; exactly one pulled chunk, the final one, carries the end marker; non-final chunks are full-size; an empty payload yields a single empty final chunk; the last flag is the 1-byte response query
//@ funcs: ChunkSink::new; ChunkSink::write; ChunkSink::send_chunk; ChunkSink::flush; ChunkSink::flush_remaining; Session::pull; Session::recv; value_stream::chunk_response
//@ symbolic: all payload bytes
//@ bounds: payload 5 bytes, chunk size 3, written as 2+3 bytes (per-instance constants: boundary residue 5 mod 3 = 2); uncompressed; channel replaced by its FIFO contract (producer runs to completion first); unwind 10
//@ oracle: byte-for-byte comparison with the payload; exactly-one-last; pull count = ceil(n/chunk) (1 for empty)
//@ stubs: mpsc::SyncSender::send / Receiver::recv -> in-memory FIFO (std channel blocking/futex paths not modelled)
c09_pipeline!(c09_pipeline_n5_cb3_w2, 5, 3, 2);

//@ name: c09_pipeline_n0_cb1_w0
//@ prop: C09
//@ tier: thorough
//@ clause: the concatenation of pulled chunks is exactly the produced byte stream; exactly one pulled chunk, the final one, carries the end marker; non-final chunks are full-size; an empty payload yields a single empty final chunk; the last flag is the 1-byte response query
//@ funcs: ChunkSink::new; ChunkSink::write; ChunkSink::send_chunk; ChunkSink::flush; ChunkSink::flush_remaining; Session::pull; Session::recv; value_stream::chunk_response
//@ symbolic: all payload bytes
//@ bounds: payload 0 bytes, chunk size 1, written as 0+0 bytes (per-instance constants: boundary residue 0 mod 1 = 0); uncompressed; channel replaced by its FIFO contract (producer runs to completion first); unwind 10
//@ oracle: byte-for-byte comparison with the payload; exactly-one-last; pull count = ceil(n/chunk) (1 for empty)
//@ stubs: mpsc::SyncSender::send / Receiver::recv -> in-memory FIFO (std channel blocking/futex paths not modelled)
c09_pipeline!(c09_pipeline_n0_cb1_w0, 0, 1, 0);

//@ name: c09_pipeline_n1_cb1_w0
//@ prop: C09
//@ tier: thorough
//@ clause: the concatenation of pulled chunks is exactly the produced byte stream; exactly one pulled chunk, the final one, carries the end marker; non-final chunks are full-size; an empty payload yields a single empty final chunk; the last flag is the 1-byte response query
//@ funcs: ChunkSink::new; ChunkSink::write; ChunkSink::send_chunk; ChunkSink::flush; ChunkSink::flush_remaining; Session::pull; Session::recv; value_stream::chunk_response
//@ symbolic: all payload bytes
//@ bounds: payload 1 bytes, chunk size 1, written as 0+1 bytes (per-instance constants: boundary residue 1 mod 1 = 0); uncompressed; channel replaced by its FIFO contract (producer runs to completion first); unwind 10
//@ oracle: byte-for-byte comparison with the payload; exactly-one-last; pull count = ceil(n/chunk) (1 for empty)
//@ stubs: mpsc::SyncSender::send / Receiver::recv -> in-memory FIFO (std channel blocking/futex paths not modelled)
c09_pipeline!(c09_pipeline_n1_cb1_w0, 1, 1, 0);

//@ name: c09_pipeline_n1_cb1_w1
//@ prop: C09
//@ tier: thorough
//@ clause: the concatenation of pulled chunks is exactly the produced byte stream; exactly one pulled chunk, the final one, carries the end marker; non-final chunks are full-size; an empty payload yields a single empty final chunk; the last flag is the 1-byte response query
//@ funcs: ChunkSink::new; ChunkSink::write; ChunkSink::send_chunk; ChunkSink::flush; ChunkSink::flush_remaining; Session::pull; Session::recv; value_stream::chunk_response
//@ symbolic: all payload bytes
//@ bounds: payload 1 bytes, chunk size 1, written as 1+0 bytes (per-instance constants: boundary residue 1 mod 1 = 0); uncompressed; channel replaced by its FIFO contract (producer runs to completion first); unwind 10
//@ oracle: byte-for-byte comparison with the payload; exactly-one-last; pull count = ceil(n/chunk) (1 for empty)
//@ stubs: mpsc::SyncSender::send / Receiver::recv -> in-memory FIFO (std channel blocking/futex paths not modelled)
c09_pipeline!(c09_pipeline_n1_cb1_w1, 1, 1, 1);

//@ name: c09_pipeline_n2_cb1_w0
//@ prop: C09
//@ tier: thorough
//@ clause: the concatenation of pulled chunks is exactly the produced byte stream; exactly one pulled chunk, the final one, carries the end marker; non-final chunks are full-size; an empty payload yields a single empty final chunk; the last flag is the 1-byte response query
//@ funcs: ChunkSink::new; ChunkSink::write; ChunkSink::send_chunk; ChunkSink::flush; ChunkSink::flush_remaining; Session::pull; Session::recv; value_stream::chunk_response
//@ symbolic: all payload bytes
//@ bounds: payload 2 bytes, chunk size 1, written as 0+2 bytes (per-instance constants: boundary residue 2 mod 1 = 0); uncompressed; channel replaced by its FIFO contract (producer runs to completion first); unwind 10
//@ oracle: byte-for-byte comparison with the payload; exactly-one-last; pull count = ceil(n/chunk) (1 for empty)
//@ stubs: mpsc::SyncSender::send / Receiver::recv -> in-memory FIFO (std channel blocking/futex paths not modelled)
c09_pipeline!(c09_pipeline_n2_cb1_w0, 2, 1, 0);

//@ name: c09_pipeline_n2_cb1_w1
//@ prop: C09
//@ tier: thorough
//@ clause: the concatenation of pulled chunks is exactly the produced byte stream; exactly one pulled chunk, the final one, carries the end marker; non-final chunks are full-size; an empty payload yields a single empty final chunk; the last flag is the 1-byte response query
//@ funcs: ChunkSink::new; ChunkSink::write; ChunkSink::send_chunk; ChunkSink::flush; ChunkSink::flush_remaining; Session::pull; Session::recv; value_stream::chunk_response
//@ symbolic: all payload bytes
//@ bounds: payload 2 bytes, chunk size 1, written as 1+1 bytes (per-instance constants: boundary residue 2 mod 1 = 0); uncompressed; channel replaced by its FIFO contract (producer runs to completion first); unwind 10
//@ oracle: byte-for-byte comparison with the payload; exactly-one-last; pull count = ceil(n/chunk) (1 for empty)
//@ stubs: mpsc::SyncSender::send / Receiver::recv -> in-memory FIFO (std channel blocking/futex paths not modelled)
c09_pipeline!(c09_pipeline_n2_cb1_w1, 2, 1, 1);

//@ name: c09_pipeline_n2_cb1_w2
//@ prop: C09
//@ tier: thorough
//@ clause: the concatenation of pulled chunks is exactly the produced byte stream; exactly one pulled chunk, the final one, carries the end marker; non-final chunks are full-size; an empty payload yields a single empty final chunk; the last flag is the 1-byte response query
//@ funcs: ChunkSink::new; ChunkSink::write; ChunkSink::send_chunk; ChunkSink::flush; ChunkSink::flush_remaining; Session::pull; Session::recv; value_stream::chunk_response
//@ symbolic: all payload bytes
//@ bounds: payload 2 bytes, chunk size 1, written as 2+0 bytes (per-instance constants: boundary residue 2 mod 1 = 0); uncompressed; channel replaced by its FIFO contract (producer runs to completion first); unwind 10
//@ oracle: byte-for-byte comparison with the payload; exactly-one-last; pull count = ceil(n/chunk) (1 for empty)
//@ stubs: mpsc::SyncSender::send / Receiver::recv -> in-memory FIFO (std channel blocking/futex paths not modelled)
c09_pipeline!(c09_pipeline_n2_cb1_w2, 2, 1, 2);

//@ name: c09_pipeline_n3_cb1_w0
//@ prop: C09
//@ tier: thorough
//@ clause: the concatenation of pulled chunks is exactly the produced byte stream; exactly one pulled chunk, the final one, carries the end marker; non-final chunks are full-size; an empty payload yields a single empty final chunk; the last flag is the 1-byte response query
//@ funcs: ChunkSink::new; ChunkSink::write; ChunkSink::send_chunk; ChunkSink::flush; ChunkSink::flush_remaining; Session::pull; Session::recv; value_stream::chunk_response
//@ symbolic: all payload bytes
//@ bounds: payload 3 bytes, chunk size 1, written as 0+3 bytes (per-instance constants: boundary residue 3 mod 1 = 0); uncompressed; channel replaced by its FIFO contract (producer runs to completion first); unwind 10
//@ oracle: byte-for-byte comparison with the payload; exactly-one-last; pull count = ceil(n/chunk) (1 for empty)
//@ stubs: mpsc::SyncSender::send / Receiver::recv -> in-memory FIFO (std channel blocking/futex paths not modelled)
c09_pipeline!(c09_pipeline_n3_cb1_w0, 3, 1, 0);

//@ name: c09_pipeline_n3_cb1_w1
//@ prop: C09
//@ tier: thorough
//@ clause: the concatenation of pulled chunks is exactly the produced byte stream; exactly one pulled chunk, the final one, carries the end marker; non-final chunks are full-size; an empty payload yields a single empty final chunk; the last flag is the 1-byte response query
//@ funcs: ChunkSink::new; ChunkSink::write; ChunkSink::send_chunk; ChunkSink::flush; ChunkSink::flush_remaining; Session::pull; Session::recv; value_stream::chunk_response
//@ symbolic: all payload bytes
//@ bounds: payload 3 bytes, chunk size 1, written as 1+2 bytes (per-instance constants: boundary residue 3 mod 1 = 0); uncompressed; channel replaced by its FIFO contract (producer runs to completion first); unwind 10
//@ oracle: byte-for-byte comparison with the payload; exactly-one-last; pull count = ceil(n/chunk) (1 for empty)
//@ stubs: mpsc::SyncSender::send / Receiver::recv -> in-memory FIFO (std channel blocking/futex paths not modelled)
c09_pipeline!(c09_pipeline_n3_cb1_w1, 3, 1, 1);

//@ name: c09_pipeline_n3_cb1_w2
//@ prop: C09
//@ tier: thorough
//@ clause: the concatenation of pulled chunks is exactly the produced byte stream; exactly one pulled chunk, the final one, carries the end marker; non-final chunks are full-size; an empty payload yields a single empty final chunk; the last flag is the 1-byte response query
//@ funcs: ChunkSink::new; ChunkSink::write; ChunkSink::send_chunk; ChunkSink::flush; ChunkSink::flush_remaining; Session::pull; Session::recv; value_stream::chunk_response
//@ symbolic: all payload bytes
//@ bounds: payload 3 bytes, chunk size 1, written as 2+1 bytes (per-instance constants: boundary residue 3 mod 1 = 0); uncompressed; channel replaced by its FIFO contract (producer runs to completion first); unwind 10
//@ oracle: byte-for-byte comparison with the payload; exactly-one-last; pull count = ceil(n/chunk) (1 for empty)
//@ stubs: mpsc::SyncSender::send / Receiver::recv -> in-memory FIFO (std channel blocking/futex paths not modelled)
c09_pipeline!(c09_pipeline_n3_cb1_w2, 3, 1, 2);

//@ name: c09_pipeline_n3_cb1_w3
//@ prop: C09
//@ tier: thorough
//@ clause: the concatenation of pulled chunks is exactly the produced byte stream; exactly one pulled chunk, the final one, carries the end marker; non-final chunks are full-size; an empty payload yields a single empty final chunk; the last flag is the 1-byte response query
//@ funcs: ChunkSink::new; ChunkSink::write; ChunkSink::send_chunk; ChunkSink::flush; ChunkSink::flush_remaining; Session::pull; Session::recv; value_stream::chunk_response
//@ symbolic: all payload bytes
//@ bounds: payload 3 bytes, chunk size 1, written as 3+0 bytes (per-instance constants: boundary residue 3 mod 1 = 0); uncompressed; channel replaced by its FIFO contract (producer runs to completion first); unwind 10
//@ oracle: byte-for-byte comparison with the payload; exactly-one-last; pull count = ceil(n/chunk) (1 for empty)
//@ stubs: mpsc::SyncSender::send / Receiver::recv -> in-memory FIFO (std channel blocking/futex paths not modelled)
c09_pipeline!(c09_pipeline_n3_cb1_w3, 3, 1, 3);

//@ name: c09_pipeline_n4_cb1_w0
//@ prop: C09
//@ tier: thorough
//@ clause: the concatenation of pulled chunks is exactly the produced byte stream; exactly one pulled chunk, the final one, carries the end marker; non-final chunks are full-size; an empty payload yields a single empty final chunk; the last flag is the 1-byte response query
//@ funcs: ChunkSink::new; ChunkSink::write; ChunkSink::send_chunk; ChunkSink::flush; ChunkSink::flush_remaining; Session::pull; Session::recv; value_stream::chunk_response
//@ symbolic: all payload bytes
//@ bounds: payload 4 bytes, chunk size 1, written as 0+4 bytes (per-instance constants: boundary residue 4 mod 1 = 0); uncompressed; channel replaced by its FIFO contract (producer runs to completion first); unwind 10
//@ oracle: byte-for-byte comparison with the payload; exactly-one-last; pull count = ceil(n/chunk) (1 for empty)
//@ stubs: mpsc::SyncSender::send / Receiver::recv -> in-memory FIFO (std channel blocking/futex paths not modelled)
c09_pipeline!(c09_pipeline_n4_cb1_w0, 4, 1, 0);

//@ name: c09_pipeline_n4_cb1_w1
//@ prop: C09
//@ tier: thorough
//@ clause: the concatenation of pulled chunks is exactly the produced byte stream; exactly one pulled chunk, the final one, carries the end marker; non-final chunks are full-size; an empty payload yields a single empty final chunk; the last flag is the 1-byte response query
//@ funcs: ChunkSink::new; ChunkSink::write; ChunkSink::send_chunk; ChunkSink::flush; ChunkSink::flush_remaining; Session::pull; Session::recv; value_stream::chunk_response
//@ symbolic: all payload bytes
//@ bounds: payload 4 bytes, chunk size 1, written as 1+3 bytes (per-instance constants: boundary residue 4 mod 1 = 0); uncompressed; channel replaced by its FIFO contract (producer runs to completion first); unwind 10
//@ oracle: byte-for-byte comparison with the payload; exactly-one-last; pull count = ceil(n/chunk) (1 for empty)
//@ stubs: mpsc::SyncSender::send / Receiver::recv -> in-memory FIFO (std channel blocking/futex paths not modelled)
c09_pipeline!(c09_pipeline_n4_cb1_w1, 4, 1, 1);

//@ name: c09_pipeline_n4_cb1_w2
//@ prop: C09
//@ tier: thorough
//@ clause: the concatenation of pulled chunks is exactly the produced byte stream; exactly one pulled chunk, the final one, carries the end marker; non-final chunks are full-size; an empty payload yields a single empty final chunk; the last flag is the 1-byte response query
//@ funcs: ChunkSink::new; ChunkSink::write; ChunkSink::send_chunk; ChunkSink::flush; ChunkSink::flush_remaining; Session::pull; Session::recv; value_stream::chunk_response
//@ symbolic: all payload bytes
//@ bounds: payload 4 bytes, chunk size 1, written as 2+2 bytes (per-instance constants: boundary residue 4 mod 1 = 0); uncompressed; channel replaced by its FIFO contract (producer runs to completion first); unwind 10
//@ oracle: byte-for-byte comparison with the payload; exactly-one-last; pull count = ceil(n/chunk) (1 for empty)
//@ stubs: mpsc::SyncSender::send / Receiver::recv -> in-memory FIFO (std channel blocking/futex paths not modelled)
c09_pipeline!(c09_pipeline_n4_cb1_w2, 4, 1, 2);

//@ name: c09_pipeline_n4_cb1_w4
//@ prop: C09
//@ tier: thorough
//@ clause: the concatenation of pulled chunks is exactly the produced byte stream; exactly one pulled chunk, the final one, carries the end marker; non-final chunks are full-size; an empty payload yields a single empty final chunk; the last flag is the 1-byte response query
//@ funcs: ChunkSink::new; ChunkSink::write; ChunkSink::send_chunk; ChunkSink::flush; ChunkSink::flush_remaining; Session::pull; Session::recv; value_stream::chunk_response
//@ symbolic: all payload bytes
//@ bounds: payload 4 bytes, chunk size 1, written as 4+0 bytes (per-instance constants: boundary residue 4 mod 1 = 0); uncompressed; channel replaced by its FIFO contract (producer runs to completion first); unwind 10
//@ oracle: byte-for-byte comparison with the payload; exactly-one-last; pull count = ceil(n/chunk) (1 for empty)
//@ stubs: mpsc::SyncSender::send / Receiver::recv -> in-memory FIFO (std channel blocking/futex paths not modelled)
c09_pipeline!(c09_pipeline_n4_cb1_w4, 4, 1, 4);

//@ name: c09_pipeline_n5_cb1_w0
//@ prop: C09
//@ tier: thorough
//@ clause: the concatenation of pulled chunks is exactly the produced byte stream; exactly one pulled chunk, the final one, carries the end marker; non-final chunks are full-size; an empty payload yields a single empty final chunk; the last flag is the 1-byte response query
//@ funcs: ChunkSink::new; ChunkSink::write; ChunkSink::send_chunk; ChunkSink::flush; ChunkSink::flush_remaining; Session::pull; Session::recv; value_stream::chunk_response
//@ symbolic: all payload bytes
//@ bounds: payload 5 bytes, chunk size 1, written as 0+5 bytes (per-instance constants: boundary residue 5 mod 1 = 0); uncompressed; channel replaced by its FIFO contract (producer runs to completion first); unwind 10
//@ oracle: byte-for-byte comparison with the payload; exactly-one-last; pull count = ceil(n/chunk) (1 for empty)
//@ stubs: mpsc::SyncSender::send / Receiver::recv -> in-memory FIFO (std channel blocking/futex paths not modelled)
c09_pipeline!(c09_pipeline_n5_cb1_w0, 5, 1, 0);

//@ name: c09_pipeline_n5_cb1_w1
//@ prop: C09
//@ tier: thorough
//@ clause: the concatenation of pulled chunks is exactly the produced byte stream; exactly one pulled chunk, the final one, carries the end marker; non-final chunks are full-size; an empty payload yields a single empty final chunk; the last flag is the 1-byte response query
//@ funcs: ChunkSink::new; ChunkSink::write; ChunkSink::send_chunk; ChunkSink::flush; ChunkSink::flush_remaining; Session::pull; Session::recv; value_stream::chunk_response
//@ symbolic: all payload bytes
//@ bounds: payload 5 bytes, chunk size 1, written as 1+4 bytes (per-instance constants: boundary residue 5 mod 1 = 0); uncompressed; channel replaced by its FIFO contract (producer runs to completion first); unwind 10
//@ oracle: byte-for-byte comparison with the payload; exactly-one-last; pull count = ceil(n/chunk) (1 for empty)
//@ stubs: mpsc::SyncSender::send / Receiver::recv -> in-memory FIFO (std channel blocking/futex paths not modelled)
c09_pipeline!(c09_pipeline_n5_cb1_w1, 5, 1, 1);

//@ name: c09_pipeline_n5_cb1_w2
//@ prop: C09
//@ tier: thorough
//@ clause: the concatenation of pulled chunks is exactly the produced byte stream; exactly one pulled chunk, the final one, carries the end marker; non-final chunks are full-size; an empty payload yields a single empty final chunk; the last flag is the 1-byte response query
//@ funcs: ChunkSink::new; ChunkSink::write; ChunkSink::send_chunk; ChunkSink::flush; ChunkSink::flush_remaining; Session::pull; Session::recv; value_stream::chunk_response
//@ symbolic: all payload bytes
//@ bounds: payload 5 bytes, chunk size 1, written as 2+3 bytes (per-instance constants: boundary residue 5 mod 1 = 0); uncompressed; channel replaced by its FIFO contract (producer runs to completion first); unwind 10
//@ oracle: byte-for-byte comparison with the payload; exactly-one-last; pull count = ceil(n/chunk) (1 for empty)
//@ stubs: mpsc::SyncSender::send / Receiver::recv -> in-memory FIFO (std channel blocking/futex paths not modelled)
c09_pipeline!(c09_pipeline_n5_cb1_w2, 5, 1, 2);

//@ name: c09_pipeline_n5_cb1_w5
//@ prop: C09
//@ tier: thorough
//@ clause: the concatenation of pulled chunks is exactly the produced byte stream; exactly one pulled chunk, the final one, carries the end marker; non-final chunks are full-size; an empty payload yields a single empty final chunk; the last flag is the 1-byte response query
//@ funcs: ChunkSink::new; ChunkSink::write; ChunkSink::send_chunk; ChunkSink::flush; ChunkSink::flush_remaining; Session::pull; Session::recv; value_stream::chunk_response
//@ symbolic: all payload bytes
//@ bounds: payload 5 bytes, chunk size 1, written as 5+0 bytes (per-instance constants: boundary residue 5 mod 1 = 0); uncompressed; channel replaced by its FIFO contract (producer runs to completion first); unwind 10
//@ oracle: byte-for-byte comparison with the payload; exactly-one-last; pull count = ceil(n/chunk) (1 for empty)
//@ stubs: mpsc::SyncSender::send / Receiver::recv -> in-memory FIFO (std channel blocking/futex paths not modelled)
c09_pipeline!(c09_pipeline_n5_cb1_w5, 5, 1, 5);

//@ name: c09_pipeline_n1_cb2_w0
//@ prop: C09
//@ tier: thorough
//@ clause: the concatenation of pulled chunks is exactly the produced byte stream; exactly one pulled chunk, the final one, carries the end marker; non-final chunks are full-size; an empty payload yields a single empty final chunk; the last flag is the 1-byte response query
//@ funcs: ChunkSink::new; ChunkSink::write; ChunkSink::send_chunk; ChunkSink::flush; ChunkSink::flush_remaining; Session::pull; Session::recv; value_stream::chunk_response
//@ symbolic: all payload bytes
//@ bounds: payload 1 bytes, chunk size 2, written as 0+1 bytes (per-instance constants: boundary residue 1 mod 2 = 1); uncompressed; channel replaced by its FIFO contract (producer runs to completion first); unwind 10
//@ oracle: byte-for-byte comparison with the payload; exactly-one-last; pull count = ceil(n/chunk) (1 for empty)
//@ stubs: mpsc::SyncSender::send / Receiver::recv -> in-memory FIFO (std channel blocking/futex paths not modelled)
c09_pipeline!(c09_pipeline_n1_cb2_w0, 1, 2, 0);

//@ name: c09_pipeline_n1_cb2_w1
//@ prop: C09
//@ tier: thorough
//@ clause: the concatenation of pulled chunks is exactly the produced byte stream; exactly one pulled chunk, the final one, carries the end marker; non-final chunks are full-size; an empty payload yields a single empty final chunk; the last flag is the 1-byte response query
//@ funcs: ChunkSink::new; ChunkSink::write; ChunkSink::send_chunk; ChunkSink::flush; ChunkSink::flush_remaining; Session::pull; Session::recv; value_stream::chunk_response
//@ symbolic: all payload bytes
//@ bounds: payload 1 bytes, chunk size 2, written as 1+0 bytes (per-instance constants: boundary residue 1 mod 2 = 1); uncompressed; channel replaced by its FIFO contract (producer runs to completion first); unwind 10
//@ oracle: byte-for-byte comparison with the payload; exactly-one-last; pull count = ceil(n/chunk) (1 for empty)
//@ stubs: mpsc::SyncSender::send / Receiver::recv -> in-memory FIFO (std channel blocking/futex paths not modelled)
c09_pipeline!(c09_pipeline_n1_cb2_w1, 1, 2, 1);

//@ name: c09_pipeline_n2_cb2_w0
//@ prop: C09
//@ tier: thorough
//@ clause: the concatenation of pulled chunks is exactly the produced byte stream; exactly one pulled chunk, the final one, carries the end marker; non-final chunks are full-size; an empty payload yields a single empty final chunk; the last flag is the 1-byte response query
//@ funcs: ChunkSink::new; ChunkSink::write; ChunkSink::send_chunk; ChunkSink::flush; ChunkSink::flush_remaining; Session::pull; Session::recv; value_stream::chunk_response
//@ symbolic: all payload bytes
//@ bounds: payload 2 bytes, chunk size 2, written as 0+2 bytes (per-instance constants: boundary residue 2 mod 2 = 0); uncompressed; channel replaced by its FIFO contract (producer runs to completion first); unwind 10
//@ oracle: byte-for-byte comparison with the payload; exactly-one-last; pull count = ceil(n/chunk) (1 for empty)
//@ stubs: mpsc::SyncSender::send / Receiver::recv -> in-memory FIFO (std channel blocking/futex paths not modelled)
c09_pipeline!(c09_pipeline_n2_cb2_w0, 2, 2, 0);

//@ name: c09_pipeline_n2_cb2_w1
//@ prop: C09
//@ tier: thorough
//@ clause: the concatenation of pulled chunks is exactly the produced byte stream; exactly one pulled chunk, the final one, carries the end marker; non-final chunks are full-size; an empty payload yields a single empty final chunk; the last flag is the 1-byte response query
//@ funcs: ChunkSink::new; ChunkSink::write; ChunkSink::send_chunk; ChunkSink::flush; ChunkSink::flush_remaining; Session::pull; Session::recv; value_stream::chunk_response
//@ symbolic: all payload bytes
//@ bounds: payload 2 bytes, chunk size 2, written as 1+1 bytes (per-instance constants: boundary residue 2 mod 2 = 0); uncompressed; channel replaced by its FIFO contract (producer runs to completion first); unwind 10
//@ oracle: byte-for-byte comparison with the payload; exactly-one-last; pull count = ceil(n/chunk) (1 for empty)
//@ stubs: mpsc::SyncSender::send / Receiver::recv -> in-memory FIFO (std channel blocking/futex paths not modelled)
c09_pipeline!(c09_pipeline_n2_cb2_w1, 2, 2, 1);

//@ name: c09_pipeline_n2_cb2_w2
//@ prop: C09
//@ tier: thorough
//@ clause: the concatenation of pulled chunks is exactly the produced byte stream; exactly one pulled chunk, the final one, carries the end marker; non-final chunks are full-size; an empty payload yields a single empty final chunk; the last flag is the 1-byte response query
//@ funcs: ChunkSink::new; ChunkSink::write; ChunkSink::send_chunk; ChunkSink::flush; ChunkSink::flush_remaining; Session::pull; Session::recv; value_stream::chunk_response
//@ symbolic: all payload bytes
//@ bounds: payload 2 bytes, chunk size 2, written as 2+0 bytes (per-instance constants: boundary residue 2 mod 2 = 0); uncompressed; channel replaced by its FIFO contract (producer runs to completion first); unwind 10
//@ oracle: byte-for-byte comparison with the payload; exactly-one-last; pull count = ceil(n/chunk) (1 for empty)
//@ stubs: mpsc::SyncSender::send / Receiver::recv -> in-memory FIFO (std channel blocking/futex paths not modelled)
c09_pipeline!(c09_pipeline_n2_cb2_w2, 2, 2, 2);

//@ name: c09_pipeline_n3_cb2_w0
//@ prop: C09
//@ tier: thorough
//@ clause: the concatenation of pulled chunks is exactly the produced byte stream; exactly one pulled chunk, the final one, carries the end marker; non-final chunks are full-size; an empty payload yields a single empty final chunk; the last flag is the 1-byte response query
//@ funcs: ChunkSink::new; ChunkSink::write; ChunkSink::send_chunk; ChunkSink::flush; ChunkSink::flush_remaining; Session::pull; Session::recv; value_stream::chunk_response
//@ symbolic: all payload bytes
//@ bounds: payload 3 bytes, chunk size 2, written as 0+3 bytes (per-instance constants: boundary residue 3 mod 2 = 1); uncompressed; channel replaced by its FIFO contract (producer runs to completion first); unwind 10
//@ oracle: byte-for-byte comparison with the payload; exactly-one-last; pull count = ceil(n/chunk) (1 for empty)
//@ stubs: mpsc::SyncSender::send / Receiver::recv -> in-memory FIFO (std channel blocking/futex paths not modelled)
c09_pipeline!(c09_pipeline_n3_cb2_w0, 3, 2, 0);

//@ name: c09_pipeline_n3_cb2_w2
//@ prop: C09
//@ tier: thorough
//@ clause: the concatenation of pulled chunks is exactly the produced byte stream; exactly one pulled chunk, the final one, carries the end marker; non-final chunks are full-size; an empty payload yields a single empty final chunk; the last flag is the 1-byte response query
//@ funcs: ChunkSink::new; ChunkSink::write; ChunkSink::send_chunk; ChunkSink::flush; ChunkSink::flush_remaining; Session::pull; Session::recv; value_stream::chunk_response
//@ symbolic: all payload bytes
//@ bounds: payload 3 bytes, chunk size 2, written as 2+1 bytes (per-instance constants: boundary residue 3 mod 2 = 1); uncompressed; channel replaced by its FIFO contract (producer runs to completion first); unwind 10
//@ oracle: byte-for-byte comparison with the payload; exactly-one-last; pull count = ceil(n/chunk) (1 for empty)
//@ stubs: mpsc::SyncSender::send / Receiver::recv -> in-memory FIFO (std channel blocking/futex paths not modelled)
c09_pipeline!(c09_pipeline_n3_cb2_w2, 3, 2, 2);

//@ name: c09_pipeline_n3_cb2_w3
//@ prop: C09
//@ tier: thorough
//@ clause: the concatenation of pulled chunks is exactly the produced byte stream; exactly one pulled chunk, the final one, carries the end marker; non-final chunks are full-size; an empty payload yields a single empty final chunk; the last flag is the 1-byte response query
//@ funcs: ChunkSink::new; ChunkSink::write; ChunkSink::send_chunk; ChunkSink::flush; ChunkSink::flush_remaining; Session::pull; Session::recv; value_stream::chunk_response
//@ symbolic: all payload bytes
//@ bounds: payload 3 bytes, chunk size 2, written as 3+0 bytes (per-instance constants: boundary residue 3 mod 2 = 1); uncompressed; channel replaced by its FIFO contract (producer runs to completion first); unwind 10
//@ oracle: byte-for-byte comparison with the payload; exactly-one-last; pull count = ceil(n/chunk) (1 for empty)
//@ stubs: mpsc::SyncSender::send / Receiver::recv -> in-memory FIFO (std channel blocking/futex paths not modelled)
c09_pipeline!(c09_pipeline_n3_cb2_w3, 3, 2, 3);

//@ name: c09_pipeline_n4_cb2_w0
//@ prop: C09
//@ tier: thorough
//@ clause: the concatenation of pulled chunks is exactly the produced byte stream; exactly one pulled chunk, the final one, carries the end marker; non-final chunks are full-size; an empty payload yields a single empty final chunk; the last flag is the 1-byte response query
//@ funcs: ChunkSink::new; ChunkSink::write; ChunkSink::send_chunk; ChunkSink::flush; ChunkSink::flush_remaining; Session::pull; Session::recv; value_stream::chunk_response
//@ symbolic: all payload bytes
//@ bounds: payload 4 bytes, chunk size 2, written as 0+4 bytes (per-instance constants: boundary residue 4 mod 2 = 0); uncompressed; channel replaced by its FIFO contract (producer runs to completion first); unwind 10
//@ oracle: byte-for-byte comparison with the payload; exactly-one-last; pull count = ceil(n/chunk) (1 for empty)
//@ stubs: mpsc::SyncSender::send / Receiver::recv -> in-memory FIFO (std channel blocking/futex paths not modelled)
c09_pipeline!(c09_pipeline_n4_cb2_w0, 4, 2, 0);

//@ name: c09_pipeline_n4_cb2_w1
//@ prop: C09
//@ tier: thorough
//@ clause: the concatenation of pulled chunks is exactly the produced byte stream; exactly one pulled chunk, the final one, carries the end marker; non-final chunks are full-size; an empty payload yields a single empty final chunk; the last flag is the 1-byte response query
//@ funcs: ChunkSink::new; ChunkSink::write; ChunkSink::send_chunk; ChunkSink::flush; ChunkSink::flush_remaining; Session::pull; Session::recv; value_stream::chunk_response
//@ symbolic: all payload bytes
//@ bounds: payload 4 bytes, chunk size 2, written as 1+3 bytes (per-instance constants: boundary residue 4 mod 2 = 0); uncompressed; channel replaced by its FIFO contract (producer runs to completion first); unwind 10
//@ oracle: byte-for-byte comparison with the payload; exactly-one-last; pull count = ceil(n/chunk) (1 for empty)
//@ stubs: mpsc::SyncSender::send / Receiver::recv -> in-memory FIFO (std channel blocking/futex paths not modelled)
c09_pipeline!(c09_pipeline_n4_cb2_w1, 4, 2, 1);

//@ name: c09_pipeline_n4_cb2_w2
//@ prop: C09
//@ tier: thorough
//@ clause: the concatenation of pulled chunks is exactly the produced byte stream; exactly one pulled chunk, the final one, carries the end marker; non-final chunks are full-size; an empty payload yields a single empty final chunk; the last flag is the 1-byte response query
//@ funcs: ChunkSink::new; ChunkSink::write; ChunkSink::send_chunk; ChunkSink::flush; ChunkSink::flush_remaining; Session::pull; Session::recv; value_stream::chunk_response
//@ symbolic: all payload bytes
//@ bounds: payload 4 bytes, chunk size 2, written as 2+2 bytes (per-instance constants: boundary residue 4 mod 2 = 0); uncompressed; channel replaced by its FIFO contract (producer runs to completion first); unwind 10
//@ oracle: byte-for-byte comparison with the payload; exactly-one-last; pull count = ceil(n/chunk) (1 for empty)
//@ stubs: mpsc::SyncSender::send / Receiver::recv -> in-memory FIFO (std channel blocking/futex paths not modelled)
c09_pipeline!(c09_pipeline_n4_cb2_w2, 4, 2, 2);

//@ name: c09_pipeline_n4_cb2_w4
//@ prop: C09
//@ tier: thorough
//@ clause: the concatenation of pulled chunks is exactly the produced byte stream; exactly one pulled chunk, the final one, carries the end marker; non-final chunks are full-size; an empty payload yields a single empty final chunk; the last flag is the 1-byte response query
//@ funcs: ChunkSink::new; ChunkSink::write; ChunkSink::send_chunk; ChunkSink::flush; ChunkSink::flush_remaining; Session::pull; Session::recv; value_stream::chunk_response
//@ symbolic: all payload bytes
//@ bounds: payload 4 bytes, chunk size 2, written as 4+0 bytes (per-instance constants: boundary residue 4 mod 2 = 0); uncompressed; channel replaced by its FIFO contract (producer runs to completion first); unwind 10
//@ oracle: byte-for-byte comparison with the payload; exactly-one-last; pull count = ceil(n/chunk) (1 for empty)
//@ stubs: mpsc::SyncSender::send / Receiver::recv -> in-memory FIFO (std channel blocking/futex paths not modelled)
c09_pipeline!(c09_pipeline_n4_cb2_w4, 4, 2, 4);

//@ name: c09_pipeline_n5_cb2_w0
//@ prop: C09
//@ tier: thorough
//@ clause: the concatenation of pulled chunks is exactly the produced byte stream; exactly one pulled chunk, the final one, carries the end marker; non-final chunks are full-size; an empty payload yields a single empty final chunk; the last flag is the 1-byte response query
//@ funcs: ChunkSink::new; ChunkSink::write; ChunkSink::send_chunk; ChunkSink::flush; ChunkSink::flush_remaining; Session::pull; Session::recv; value_stream::chunk_response
//@ symbolic: all payload bytes
//@ bounds: payload 5 bytes, chunk size 2, written as 0+5 bytes (per-instance constants: boundary residue 5 mod 2 = 1); uncompressed; channel replaced by its FIFO contract (producer runs to completion first); unwind 10
//@ oracle: byte-for-byte comparison with the payload; exactly-one-last; pull count = ceil(n/chunk) (1 for empty)
//@ stubs: mpsc::SyncSender::send / Receiver::recv -> in-memory FIFO (std channel blocking/futex paths not modelled)
c09_pipeline!(c09_pipeline_n5_cb2_w0, 5, 2, 0);

//@ name: c09_pipeline_n5_cb2_w1
//@ prop: C09
//@ tier: thorough
//@ clause: the concatenation of pulled chunks is exactly the produced byte stream; exactly one pulled chunk, the final one, carries the end marker; non-final chunks are full-size; an empty payload yields a single empty final chunk; the last flag is the 1-byte response query
//@ funcs: ChunkSink::new; ChunkSink::write; ChunkSink::send_chunk; ChunkSink::flush; ChunkSink::flush_remaining; Session::pull; Session::recv; value_stream::chunk_response
//@ symbolic: all payload bytes
//@ bounds: payload 5 bytes, chunk size 2, written as 1+4 bytes (per-instance constants: boundary residue 5 mod 2 = 1); uncompressed; channel replaced by its FIFO contract (producer runs to completion first); unwind 10
//@ oracle: byte-for-byte comparison with the payload; exactly-one-last; pull count = ceil(n/chunk) (1 for empty)
//@ stubs: mpsc::SyncSender::send / Receiver::recv -> in-memory FIFO (std channel blocking/futex paths not modelled)
c09_pipeline!(c09_pipeline_n5_cb2_w1, 5, 2, 1);

//@ name: c09_pipeline_n5_cb2_w2
//@ prop: C09
//@ tier: thorough
//@ clause: the concatenation of pulled chunks is exactly the produced byte stream; exactly one pulled chunk, the final one, carries the end marker; non-final chunks are full-size; an empty payload yields a single empty final chunk; the last flag is the 1-byte response query
//@ funcs: ChunkSink::new; ChunkSink::write; ChunkSink::send_chunk; ChunkSink::flush; ChunkSink::flush_remaining; Session::pull; Session::recv; value_stream::chunk_response
//@ symbolic: all payload bytes
//@ bounds: payload 5 bytes, chunk size 2, written as 2+3 bytes (per-instance constants: boundary residue 5 mod 2 = 1); uncompressed; channel replaced by its FIFO contract (producer runs to completion first); unwind 10
//@ oracle: byte-for-byte comparison with the payload; exactly-one-last; pull count = ceil(n/chunk) (1 for empty)
//@ stubs: mpsc::SyncSender::send / Receiver::recv -> in-memory FIFO (std channel blocking/futex paths not modelled)
c09_pipeline!(c09_pipeline_n5_cb2_w2, 5, 2, 2);

//@ name: c09_pipeline_n5_cb2_w5
//@ prop: C09
//@ tier: thorough
//@ clause: the concatenation of pulled chunks is exactly the produced byte stream; exactly one pulled chunk, the final one, carries the end marker; non-final chunks are full-size; an empty payload yields a single empty final chunk; the last flag is the 1-byte response query
//@ funcs: ChunkSink::new; ChunkSink::write; ChunkSink::send_chunk; ChunkSink::flush; ChunkSink::flush_remaining; Session::pull; Session::recv; value_stream::chunk_response
//@ symbolic: all payload bytes
//@ bounds: payload 5 bytes, chunk size 2, written as 5+0 bytes (per-instance constants: boundary residue 5 mod 2 = 1); uncompressed; channel replaced by its FIFO contract (producer runs to completion first); unwind 10
//@ oracle: byte-for-byte comparison with the payload; exactly-one-last; pull count = ceil(n/chunk) (1 for empty)
//@ stubs: mpsc::SyncSender::send / Receiver::recv -> in-memory FIFO (std channel blocking/futex paths not modelled)
c09_pipeline!(c09_pipeline_n5_cb2_w5, 5, 2, 5);

//@ name: c09_pipeline_n0_cb3_w0
//@ prop: C09
//@ tier: thorough
//@ clause: the concatenation of pulled chunks is exactly the produced byte stream; exactly one pulled chunk, the final one, carries the end marker; non-final chunks are full-size; an empty payload yields a single empty final chunk; the last flag is the 1-byte response query
//@ funcs: ChunkSink::new; ChunkSink::write; ChunkSink::send_chunk; ChunkSink::flush; ChunkSink::flush_remaining; Session::pull; Session::recv; value_stream::chunk_response
//@ symbolic: all payload bytes
//@ bounds: payload 0 bytes, chunk size 3, written as 0+0 bytes (per-instance constants: boundary residue 0 mod 3 = 0); uncompressed; channel replaced by its FIFO contract (producer runs to completion first); unwind 10
//@ oracle: byte-for-byte comparison with the payload; exactly-one-last; pull count = ceil(n/chunk) (1 for empty)
//@ stubs: mpsc::SyncSender::send / Receiver::recv -> in-memory FIFO (std channel blocking/futex paths not modelled)
c09_pipeline!(c09_pipeline_n0_cb3_w0, 0, 3, 0);

//@ name: c09_pipeline_n1_cb3_w0
//@ prop: C09
//@ tier: thorough
//@ clause: the concatenation of pulled chunks is exactly the produced byte stream; exactly one pulled chunk, the final one, carries the end marker; non-final chunks are full-size; an empty payload yields a single empty final chunk; the last flag is the 1-byte response query
//@ funcs: ChunkSink::new; ChunkSink::write; ChunkSink::send_chunk; ChunkSink::flush; ChunkSink::flush_remaining; Session::pull; Session::recv; value_stream::chunk_response
//@ symbolic: all payload bytes
//@ bounds: payload 1 bytes, chunk size 3, written as 0+1 bytes (per-instance constants: boundary residue 1 mod 3 = 1); uncompressed; channel replaced by its FIFO contract (producer runs to completion first); unwind 10
//@ oracle: byte-for-byte comparison with the payload; exactly-one-last; pull count = ceil(n/chunk) (1 for empty)
//@ stubs: mpsc::SyncSender::send / Receiver::recv -> in-memory FIFO (std channel blocking/futex paths not modelled)
c09_pipeline!(c09_pipeline_n1_cb3_w0, 1, 3, 0);

//@ name: c09_pipeline_n1_cb3_w1
//@ prop: C09
//@ tier: thorough
//@ clause: the concatenation of pulled chunks is exactly the produced byte stream; exactly one pulled chunk, the final one, carries the end marker; non-final chunks are full-size; an empty payload yields a single empty final chunk; the last flag is the 1-byte response query
//@ funcs: ChunkSink::new; ChunkSink::write; ChunkSink::send_chunk; ChunkSink::flush; ChunkSink::flush_remaining; Session::pull; Session::recv; value_stream::chunk_response
//@ symbolic: all payload bytes
//@ bounds: payload 1 bytes, chunk size 3, written as 1+0 bytes (per-instance constants: boundary residue 1 mod 3 = 1); uncompressed; channel replaced by its FIFO contract (producer runs to completion first); unwind 10
//@ oracle: byte-for-byte comparison with the payload; exactly-one-last; pull count = ceil(n/chunk) (1 for empty)
//@ stubs: mpsc::SyncSender::send / Receiver::recv -> in-memory FIFO (std channel blocking/futex paths not modelled)
c09_pipeline!(c09_pipeline_n1_cb3_w1, 1, 3, 1);

//@ name: c09_pipeline_n2_cb3_w0
//@ prop: C09
//@ tier: thorough
//@ clause: the concatenation of pulled chunks is exactly the produced byte stream; exactly one pulled chunk, the final one, carries the end marker; non-final chunks are full-size; an empty payload yields a single empty final chunk; the last flag is the 1-byte response query
//@ funcs: ChunkSink::new; ChunkSink::write; ChunkSink::send_chunk; ChunkSink::flush; ChunkSink::flush_remaining; Session::pull; Session::recv; value_stream::chunk_response
//@ symbolic: all payload bytes
//@ bounds: payload 2 bytes, chunk size 3, written as 0+2 bytes (per-instance constants: boundary residue 2 mod 3 = 2); uncompressed; channel replaced by its FIFO contract (producer runs to completion first); unwind 10
//@ oracle: byte-for-byte comparison with the payload; exactly-one-last; pull count = ceil(n/chunk) (1 for empty)
//@ stubs: mpsc::SyncSender::send / Receiver::recv -> in-memory FIFO (std channel blocking/futex paths not modelled)
c09_pipeline!(c09_pipeline_n2_cb3_w0, 2, 3, 0);

//@ name: c09_pipeline_n2_cb3_w1
//@ prop: C09
//@ tier: thorough
//@ clause: the concatenation of pulled chunks is exactly the produced byte stream; exactly one pulled chunk, the final one, carries the end marker; non-final chunks are full-size; an empty payload yields a single empty final chunk; the last flag is the 1-byte response query
//@ funcs: ChunkSink::new; ChunkSink::write; ChunkSink::send_chunk; ChunkSink::flush; ChunkSink::flush_remaining; Session::pull; Session::recv; value_stream::chunk_response
//@ symbolic: all payload bytes
//@ bounds: payload 2 bytes, chunk size 3, written as 1+1 bytes (per-instance constants: boundary residue 2 mod 3 = 2); uncompressed; channel replaced by its FIFO contract (producer runs to completion first); unwind 10
//@ oracle: byte-for-byte comparison with the payload; exactly-one-last; pull count = ceil(n/chunk) (1 for empty)
//@ stubs: mpsc::SyncSender::send / Receiver::recv -> in-memory FIFO (std channel blocking/futex paths not modelled)
c09_pipeline!(c09_pipeline_n2_cb3_w1, 2, 3, 1);

//@ name: c09_pipeline_n2_cb3_w2
//@ prop: C09
//@ tier: thorough
//@ clause: the concatenation of pulled chunks is exactly the produced byte stream; exactly one pulled chunk, the final one, carries the end marker; non-final chunks are full-size; an empty payload yields a single empty final chunk; the last flag is the 1-byte response query
//@ funcs: ChunkSink::new; ChunkSink::write; ChunkSink::send_chunk; ChunkSink::flush; ChunkSink::flush_remaining; Session::pull; Session::recv; value_stream::chunk_response
//@ symbolic: all payload bytes
//@ bounds: payload 2 bytes, chunk size 3, written as 2+0 bytes (per-instance constants: boundary residue 2 mod 3 = 2); uncompressed; channel replaced by its FIFO contract (producer runs to completion first); unwind 10
//@ oracle: byte-for-byte comparison with the payload; exactly-one-last; pull count = ceil(n/chunk) (1 for empty)
//@ stubs: mpsc::SyncSender::send / Receiver::recv -> in-memory FIFO (std channel blocking/futex paths not modelled)
c09_pipeline!(c09_pipeline_n2_cb3_w2, 2, 3, 2);

//@ name: c09_pipeline_n3_cb3_w0
//@ prop: C09
//@ tier: thorough
//@ clause: the concatenation of pulled chunks is exactly the produced byte stream; exactly one pulled chunk, the final one, carries the end marker; non-final chunks are full-size; an empty payload yields a single empty final chunk; the last flag is the 1-byte response query
//@ funcs: ChunkSink::new; ChunkSink::write; ChunkSink::send_chunk; ChunkSink::flush; ChunkSink::flush_remaining; Session::pull; Session::recv; value_stream::chunk_response
//@ symbolic: all payload bytes
//@ bounds: payload 3 bytes, chunk size 3, written as 0+3 bytes (per-instance constants: boundary residue 3 mod 3 = 0); uncompressed; channel replaced by its FIFO contract (producer runs to completion first); unwind 10
//@ oracle: byte-for-byte comparison with the payload; exactly-one-last; pull count = ceil(n/chunk) (1 for empty)
//@ stubs: mpsc::SyncSender::send / Receiver::recv -> in-memory FIFO (std channel blocking/futex paths not modelled)
c09_pipeline!(c09_pipeline_n3_cb3_w0, 3, 3, 0);

//@ name: c09_pipeline_n3_cb3_w1
//@ prop: C09
//@ tier: thorough
//@ clause: the concatenation of pulled chunks is exactly the produced byte stream; exactly one pulled chunk, the final one, carries the end marker; non-final chunks are full-size; an empty payload yields a single empty final chunk; the last flag is the 1-byte response query
//@ funcs: ChunkSink::new; ChunkSink::write; ChunkSink::send_chunk; ChunkSink::flush; ChunkSink::flush_remaining; Session::pull; Session::recv; value_stream::chunk_response
//@ symbolic: all payload bytes
//@ bounds: payload 3 bytes, chunk size 3, written as 1+2 bytes (per-instance constants: boundary residue 3 mod 3 = 0); uncompressed; channel replaced by its FIFO contract (producer runs to completion first); unwind 10
//@ oracle: byte-for-byte comparison with the payload; exactly-one-last; pull count = ceil(n/chunk) (1 for empty)
//@ stubs: mpsc::SyncSender::send / Receiver::recv -> in-memory FIFO (std channel blocking/futex paths not modelled)
c09_pipeline!(c09_pipeline_n3_cb3_w1, 3, 3, 1);

//@ name: c09_pipeline_n3_cb3_w2
//@ prop: C09
//@ tier: thorough
//@ clause: the concatenation of pulled chunks is exactly the produced byte stream; exactly one pulled chunk, the final one, carries the end marker; non-final chunks are full-size; an empty payload yields a single empty final chunk; the last flag is the 1-byte response query
//@ funcs: ChunkSink::new; ChunkSink::write; ChunkSink::send_chunk; ChunkSink::flush; ChunkSink::flush_remaining; Session::pull; Session::recv; value_stream::chunk_response
//@ symbolic: all payload bytes
//@ bounds: payload 3 bytes, chunk size 3, written as 2+1 bytes (per-instance constants: boundary residue 3 mod 3 = 0); uncompressed; channel replaced by its FIFO contract (producer runs to completion first); unwind 10
//@ oracle: byte-for-byte comparison with the payload; exactly-one-last; pull count = ceil(n/chunk) (1 for empty)
//@ stubs: mpsc::SyncSender::send / Receiver::recv -> in-memory FIFO (std channel blocking/futex paths not modelled)
c09_pipeline!(c09_pipeline_n3_cb3_w2, 3, 3, 2);

//@ name: c09_pipeline_n3_cb3_w3
//@ prop: C09
//@ tier: thorough
//@ clause: the concatenation of pulled chunks is exactly the produced byte stream; exactly one pulled chunk, the final one, carries the end marker; non-final chunks are full-size; an empty payload yields a single empty final chunk; the last flag is the 1-byte response query
//@ funcs: ChunkSink::new; ChunkSink::write; ChunkSink::send_chunk; ChunkSink::flush; ChunkSink::flush_remaining; Session::pull; Session::recv; value_stream::chunk_response
//@ symbolic: all payload bytes
//@ bounds: payload 3 bytes, chunk size 3, written as 3+0 bytes (per-instance constants: boundary residue 3 mod 3 = 0); uncompressed; channel replaced by its FIFO contract (producer runs to completion first); unwind 10
//@ oracle: byte-for-byte comparison with the payload; exactly-one-last; pull count = ceil(n/chunk) (1 for empty)
//@ stubs: mpsc::SyncSender::send / Receiver::recv -> in-memory FIFO (std channel blocking/futex paths not modelled)
c09_pipeline!(c09_pipeline_n3_cb3_w3, 3, 3, 3);

//@ name: c09_pipeline_n4_cb3_w0
//@ prop: C09
//@ tier: thorough
//@ clause: the concatenation of pulled chunks is exactly the produced byte stream; exactly one pulled chunk, the final one, carries the end marker; non-final chunks are full-size; an empty payload yields a single empty final chunk; the last flag is the 1-byte response query
//@ funcs: ChunkSink::new; ChunkSink::write; ChunkSink::send_chunk; ChunkSink::flush; ChunkSink::flush_remaining; Session::pull; Session::recv; value_stream::chunk_response
//@ symbolic: all payload bytes
//@ bounds: payload 4 bytes, chunk size 3, written as 0+4 bytes (per-instance constants: boundary residue 4 mod 3 = 1); uncompressed; channel replaced by its FIFO contract (producer runs to completion first); unwind 10
//@ oracle: byte-for-byte comparison with the payload; exactly-one-last; pull count = ceil(n/chunk) (1 for empty)
//@ stubs: mpsc::SyncSender::send / Receiver::recv -> in-memory FIFO (std channel blocking/futex paths not modelled)
c09_pipeline!(c09_pipeline_n4_cb3_w0, 4, 3, 0);

//@ name: c09_pipeline_n4_cb3_w1
//@ prop: C09
//@ tier: thorough
//@ clause: the concatenation of pulled chunks is exactly the produced byte stream; exactly one pulled chunk, the final one, carries the end marker; non-final chunks are full-size; an empty payload yields a single empty final chunk; the last flag is the 1-byte response query
//@ funcs: ChunkSink::new; ChunkSink::write; ChunkSink::send_chunk; ChunkSink::flush; ChunkSink::flush_remaining; Session::pull; Session::recv; value_stream::chunk_response
//@ symbolic: all payload bytes
//@ bounds: payload 4 bytes, chunk size 3, written as 1+3 bytes (per-instance constants: boundary residue 4 mod 3 = 1); uncompressed; channel replaced by its FIFO contract (producer runs to completion first); unwind 10
//@ oracle: byte-for-byte comparison with the payload; exactly-one-last; pull count = ceil(n/chunk) (1 for empty)
//@ stubs: mpsc::SyncSender::send / Receiver::recv -> in-memory FIFO (std channel blocking/futex paths not modelled)
c09_pipeline!(c09_pipeline_n4_cb3_w1, 4, 3, 1);

//@ name: c09_pipeline_n4_cb3_w2
//@ prop: C09
//@ tier: thorough
//@ clause: the concatenation of pulled chunks is exactly the produced byte stream; exactly one pulled chunk, the final one, carries the end marker; non-final chunks are full-size; an empty payload yields a single empty final chunk; the last flag is the 1-byte response query
//@ funcs: ChunkSink::new; ChunkSink::write; ChunkSink::send_chunk; ChunkSink::flush; ChunkSink::flush_remaining; Session::pull; Session::recv; value_stream::chunk_response
//@ symbolic: all payload bytes
//@ bounds: payload 4 bytes, chunk size 3, written as 2+2 bytes (per-instance constants: boundary residue 4 mod 3 = 1); uncompressed; channel replaced by its FIFO contract (producer runs to completion first); unwind 10
//@ oracle: byte-for-byte comparison with the payload; exactly-one-last; pull count = ceil(n/chunk) (1 for empty)
//@ stubs: mpsc::SyncSender::send / Receiver::recv -> in-memory FIFO (std channel blocking/futex paths not modelled)
c09_pipeline!(c09_pipeline_n4_cb3_w2, 4, 3, 2);

//@ name: c09_pipeline_n4_cb3_w4
//@ prop: C09
//@ tier: thorough
//@ clause: the concatenation of pulled chunks is exactly the produced byte stream; exactly one pulled chunk, the final one, carries the end marker; non-final chunks are full-size; an empty payload yields a single empty final chunk; the last flag is the 1-byte response query
//@ funcs: ChunkSink::new; ChunkSink::write; ChunkSink::send_chunk; ChunkSink::flush; ChunkSink::flush_remaining; Session::pull; Session::recv; value_stream::chunk_response
//@ symbolic: all payload bytes
//@ bounds: payload 4 bytes, chunk size 3, written as 4+0 bytes (per-instance constants: boundary residue 4 mod 3 = 1); uncompressed; channel replaced by its FIFO contract (producer runs to completion first); unwind 10
//@ oracle: byte-for-byte comparison with the payload; exactly-one-last; pull count = ceil(n/chunk) (1 for empty)
//@ stubs: mpsc::SyncSender::send / Receiver::recv -> in-memory FIFO (std channel blocking/futex paths not modelled)
c09_pipeline!(c09_pipeline_n4_cb3_w4, 4, 3, 4);

//@ name: c09_pipeline_n5_cb3_w0
//@ prop: C09
//@ tier: thorough
//@ clause: the concatenation of pulled chunks is exactly the produced byte stream; exactly one pulled chunk, the final one, carries the end marker; non-final chunks are full-size; an empty payload yields a single empty final chunk; the last flag is the 1-byte response query
//@ funcs: ChunkSink::new; ChunkSink::write; ChunkSink::send_chunk; ChunkSink::flush; ChunkSink::flush_remaining; Session::pull; Session::recv; value_stream::chunk_response
//@ symbolic: all payload bytes
//@ bounds: payload 5 bytes, chunk size 3, written as 0+5 bytes (per-instance constants: boundary residue 5 mod 3 = 2); uncompressed; channel replaced by its FIFO contract (producer runs to completion first); unwind 10
//@ oracle: byte-for-byte comparison with the payload; exactly-one-last; pull count = ceil(n/chunk) (1 for empty)
//@ stubs: mpsc::SyncSender::send / Receiver::recv -> in-memory FIFO (std channel blocking/futex paths not modelled)
c09_pipeline!(c09_pipeline_n5_cb3_w0, 5, 3, 0);

//@ name: c09_pipeline_n5_cb3_w1
//@ prop: C09
//@ tier: thorough
//@ clause: the concatenation of pulled chunks is exactly the produced byte stream; exactly one pulled chunk, the final one, carries the end marker; non-final chunks are full-size; an empty payload yields a single empty final chunk; the last flag is the 1-byte response query
//@ funcs: ChunkSink::new; ChunkSink::write; ChunkSink::send_chunk; ChunkSink::flush; ChunkSink::flush_remaining; Session::pull; Session::recv; value_stream::chunk_response
//@ symbolic: all payload bytes
//@ bounds: payload 5 bytes, chunk size 3, written as 1+4 bytes (per-instance constants: boundary residue 5 mod 3 = 2); uncompressed; channel replaced by its FIFO contract (producer runs to completion first); unwind 10
//@ oracle: byte-for-byte comparison with the payload; exactly-one-last; pull count = ceil(n/chunk) (1 for empty)
//@ stubs: mpsc::SyncSender::send / Receiver::recv -> in-memory FIFO (std channel blocking/futex paths not modelled)
c09_pipeline!(c09_pipeline_n5_cb3_w1, 5, 3, 1);

//@ name: c09_pipeline_n5_cb3_w5
//@ prop: C09
//@ tier: thorough
//@ clause: the concatenation of pulled chunks is exactly the produced byte stream; exactly one pulled chunk, the final one, carries the end marker; non-final chunks are full-size; an empty payload yields a single empty final chunk; the last flag is the 1-byte response query
//@ funcs: ChunkSink::new; ChunkSink::write; ChunkSink::send_chunk; ChunkSink::flush; ChunkSink::flush_remaining; Session::pull; Session::recv; value_stream::chunk_response
//@ symbolic: all payload bytes
//@ bounds: payload 5 bytes, chunk size 3, written as 5+0 bytes (per-instance constants: boundary residue 5 mod 3 = 2); uncompressed; channel replaced by its FIFO contract (producer runs to completion first); unwind 10
//@ oracle: byte-for-byte comparison with the payload; exactly-one-last; pull count = ceil(n/chunk) (1 for empty)
//@ stubs: mpsc::SyncSender::send / Receiver::recv -> in-memory FIFO (std channel blocking/futex paths not modelled)
c09_pipeline!(c09_pipeline_n5_cb3_w5, 5, 3, 5);

// ===========================================================================
// C10 (trailer clauses): TrailerHold withholds exactly the last TL bytes
// ===========================================================================
fn trailer_hold<const TL: usize, const W1: usize, const W2: usize, const W3: usize>() {
    let stream: [u8; 9] = kani::any();
    let total = W1 + W2 + W3;
    let mut th = TrailerHold::new(ShortSink::<64>::new(), TL);
    th.write_all(&stream[..W1]).unwrap();
    th.write_all(&stream[W1..W1 + W2]).unwrap();
    th.write_all(&stream[W1 + W2..total]).unwrap();
    th.flush().unwrap();
    // never buffers more than TL bytes, never forwards a byte of the last TL
    assert!(th.hold.len() <= TL);
    let fwd = th.inner.len;
    let mut i = 0;
    while i < fwd {
        assert!(th.inner.out[i] == stream[i], "forwarded bytes are not a prefix of the stream");
        i += 1;
    }
    if total >= TL {
        assert!(fwd == total - TL, "forwarded more or less than all-but-the-trailer");
        let t = th.into_trailer();
        match t {
            Ok(tr) => {
                assert!(tr.len() == TL);
                let mut j = 0;
                while j < TL {
                    assert!(tr[j] == stream[total - TL + j], "trailer is not the last bytes of the stream");
                    j += 1;
                }
                std::mem::forget(tr);
            }
            Err(_) => panic!("a stream at least as long as the trailer was rejected"),
        }
    } else {
        assert!(fwd == 0, "bytes of a too-short stream were forwarded");
        let t = th.into_trailer();
        assert!(t.is_err(), "a stream shorter than the trailer was accepted");
        std::mem::forget(t);
    }
}

macro_rules! c10_trailer {
    ($name:ident, $tl:expr, $w1:expr, $w2:expr, $w3:expr) => {
        #[kani::proof]
        #[kani::stub(std::fmt::format, crate::verif_common::format_stub)]
        #[kani::unwind(12)]
        fn $name() {
            trailer_hold::<$tl, $w1, $w2, $w3>();
        }
    };
}

//@ name: c10_trailer_t2_w131
//@ prop: C10
//@ tier: quick
//@ clause: a verified trailer is stripped exactly: the destination sink receives all but the last 2 byte(s) of the stream, the trailer returned is exactly those last bytes, across arbitrary write sizes; a stream shorter than the trailer is an error and forwards nothing
//@ funcs: TrailerHold::new; TrailerHold::write; TrailerHold::flush; TrailerHold::into_trailer
//@ symbolic: all stream bytes
//@ bounds: trailer_len=2; three writes of 1, 3, 1 bytes (per-instance constants); unwind 12
//@ oracle: inner == stream[..len-N]; trailer == stream[len-N..]; len < N => Err and nothing forwarded
//@ stubs: alloc::fmt::format -> stub (only on the too-short error path, text unread)
c10_trailer!(c10_trailer_t2_w131, 2, 1, 3, 1);

//@ name: c10_trailer_t3_w110
//@ prop: C10
//@ tier: quick
//@ clause: a verified trailer is stripped exactly: the destination sink receives all but the last 3 byte(s) of the stream, the trailer returned is exactly those last bytes, across arbitrary write sizes; a stream shorter than the trailer is an error and forwards nothing
//@ funcs: TrailerHold::new; TrailerHold::write; TrailerHold::flush; TrailerHold::into_trailer
//@ symbolic: all stream bytes
//@ bounds: trailer_len=3; three writes of 1, 1, 0 bytes (per-instance constants); unwind 12
//@ oracle: inner == stream[..len-N]; trailer == stream[len-N..]; len < N => Err and nothing forwarded
//@ stubs: alloc::fmt::format -> stub (only on the too-short error path, text unread)
c10_trailer!(c10_trailer_t3_w110, 3, 1, 1, 0);

//@ name: c10_trailer_t1_w032
//@ prop: C10
//@ tier: quick
//@ clause: a verified trailer is stripped exactly: the destination sink receives all but the last 1 byte(s) of the stream, the trailer returned is exactly those last bytes, across arbitrary write sizes; a stream shorter than the trailer is an error and forwards nothing
//@ funcs: TrailerHold::new; TrailerHold::write; TrailerHold::flush; TrailerHold::into_trailer
//@ symbolic: all stream bytes
//@ bounds: trailer_len=1; three writes of 0, 3, 2 bytes (per-instance constants); unwind 12
//@ oracle: inner == stream[..len-N]; trailer == stream[len-N..]; len < N => Err and nothing forwarded
//@ stubs: alloc::fmt::format -> stub (only on the too-short error path, text unread)
c10_trailer!(c10_trailer_t1_w032, 1, 0, 3, 2);

//@ name: c10_trailer_t2_w311
//@ prop: C10
//@ tier: quick
//@ clause: a verified trailer is stripped exactly: the destination sink receives all but the last 2 byte(s) of the stream, the trailer returned is exactly those last bytes, across arbitrary write sizes; a stream shorter than the trailer is an error and forwards nothing
//@ funcs: TrailerHold::new; TrailerHold::write; TrailerHold::flush; TrailerHold::into_trailer
//@ symbolic: all stream bytes
//@ bounds: trailer_len=2; three writes of 3, 1, 1 bytes (per-instance constants); unwind 12
//@ oracle: inner == stream[..len-N]; trailer == stream[len-N..]; len < N => Err and nothing forwarded
//@ stubs: alloc::fmt::format -> stub (only on the too-short error path, text unread)
c10_trailer!(c10_trailer_t2_w311, 2, 3, 1, 1);

//@ name: c10_trailer_t0_w000
//@ prop: C10
//@ tier: thorough
//@ clause: a verified trailer is stripped exactly: the destination sink receives all but the last 0 byte(s) of the stream, the trailer returned is exactly those last bytes, across arbitrary write sizes; a stream shorter than the trailer is an error and forwards nothing
//@ funcs: TrailerHold::new; TrailerHold::write; TrailerHold::flush; TrailerHold::into_trailer
//@ symbolic: all stream bytes
//@ bounds: trailer_len=0; three writes of 0, 0, 0 bytes (per-instance constants); unwind 12
//@ oracle: inner == stream[..len-N]; trailer == stream[len-N..]; len < N => Err and nothing forwarded
//@ stubs: alloc::fmt::format -> stub (only on the too-short error path, text unread)
c10_trailer!(c10_trailer_t0_w000, 0, 0, 0, 0);

//@ name: c10_trailer_t0_w001
//@ prop: C10
//@ tier: thorough
//@ clause: a verified trailer is stripped exactly: the destination sink receives all but the last 0 byte(s) of the stream, the trailer returned is exactly those last bytes, across arbitrary write sizes; a stream shorter than the trailer is an error and forwards nothing
//@ funcs: TrailerHold::new; TrailerHold::write; TrailerHold::flush; TrailerHold::into_trailer
//@ symbolic: all stream bytes
//@ bounds: trailer_len=0; three writes of 0, 0, 1 bytes (per-instance constants); unwind 12
//@ oracle: inner == stream[..len-N]; trailer == stream[len-N..]; len < N => Err and nothing forwarded
//@ stubs: alloc::fmt::format -> stub (only on the too-short error path, text unread)
c10_trailer!(c10_trailer_t0_w001, 0, 0, 0, 1);

//@ name: c10_trailer_t0_w003
//@ prop: C10
//@ tier: thorough
//@ clause: a verified trailer is stripped exactly: the destination sink receives all but the last 0 byte(s) of the stream, the trailer returned is exactly those last bytes, across arbitrary write sizes; a stream shorter than the trailer is an error and forwards nothing
//@ funcs: TrailerHold::new; TrailerHold::write; TrailerHold::flush; TrailerHold::into_trailer
//@ symbolic: all stream bytes
//@ bounds: trailer_len=0; three writes of 0, 0, 3 bytes (per-instance constants); unwind 12
//@ oracle: inner == stream[..len-N]; trailer == stream[len-N..]; len < N => Err and nothing forwarded
//@ stubs: alloc::fmt::format -> stub (only on the too-short error path, text unread)
c10_trailer!(c10_trailer_t0_w003, 0, 0, 0, 3);

//@ name: c10_trailer_t0_w010
//@ prop: C10
//@ tier: thorough
//@ clause: a verified trailer is stripped exactly: the destination sink receives all but the last 0 byte(s) of the stream, the trailer returned is exactly those last bytes, across arbitrary write sizes; a stream shorter than the trailer is an error and forwards nothing
//@ funcs: TrailerHold::new; TrailerHold::write; TrailerHold::flush; TrailerHold::into_trailer
//@ symbolic: all stream bytes
//@ bounds: trailer_len=0; three writes of 0, 1, 0 bytes (per-instance constants); unwind 12
//@ oracle: inner == stream[..len-N]; trailer == stream[len-N..]; len < N => Err and nothing forwarded
//@ stubs: alloc::fmt::format -> stub (only on the too-short error path, text unread)
c10_trailer!(c10_trailer_t0_w010, 0, 0, 1, 0);

//@ name: c10_trailer_t0_w011
//@ prop: C10
//@ tier: thorough
//@ clause: a verified trailer is stripped exactly: the destination sink receives all but the last 0 byte(s) of the stream, the trailer returned is exactly those last bytes, across arbitrary write sizes; a stream shorter than the trailer is an error and forwards nothing
//@ funcs: TrailerHold::new; TrailerHold::write; TrailerHold::flush; TrailerHold::into_trailer
//@ symbolic: all stream bytes
//@ bounds: trailer_len=0; three writes of 0, 1, 1 bytes (per-instance constants); unwind 12
//@ oracle: inner == stream[..len-N]; trailer == stream[len-N..]; len < N => Err and nothing forwarded
//@ stubs: alloc::fmt::format -> stub (only on the too-short error path, text unread)
c10_trailer!(c10_trailer_t0_w011, 0, 0, 1, 1);

//@ name: c10_trailer_t0_w013
//@ prop: C10
//@ tier: thorough
//@ clause: a verified trailer is stripped exactly: the destination sink receives all but the last 0 byte(s) of the stream, the trailer returned is exactly those last bytes, across arbitrary write sizes; a stream shorter than the trailer is an error and forwards nothing
//@ funcs: TrailerHold::new; TrailerHold::write; TrailerHold::flush; TrailerHold::into_trailer
//@ symbolic: all stream bytes
//@ bounds: trailer_len=0; three writes of 0, 1, 3 bytes (per-instance constants); unwind 12
//@ oracle: inner == stream[..len-N]; trailer == stream[len-N..]; len < N => Err and nothing forwarded
//@ stubs: alloc::fmt::format -> stub (only on the too-short error path, text unread)
c10_trailer!(c10_trailer_t0_w013, 0, 0, 1, 3);

//@ name: c10_trailer_t0_w030
//@ prop: C10
//@ tier: thorough
//@ clause: a verified trailer is stripped exactly: the destination sink receives all but the last 0 byte(s) of the stream, the trailer returned is exactly those last bytes, across arbitrary write sizes; a stream shorter than the trailer is an error and forwards nothing
//@ funcs: TrailerHold::new; TrailerHold::write; TrailerHold::flush; TrailerHold::into_trailer
//@ symbolic: all stream bytes
//@ bounds: trailer_len=0; three writes of 0, 3, 0 bytes (per-instance constants); unwind 12
//@ oracle: inner == stream[..len-N]; trailer == stream[len-N..]; len < N => Err and nothing forwarded
//@ stubs: alloc::fmt::format -> stub (only on the too-short error path, text unread)
c10_trailer!(c10_trailer_t0_w030, 0, 0, 3, 0);

//@ name: c10_trailer_t0_w031
//@ prop: C10
//@ tier: thorough
//@ clause: a verified trailer is stripped exactly: the destination sink receives all but the last 0 byte(s) of the stream, the trailer returned is exactly those last bytes, across arbitrary write sizes; a stream shorter than the trailer is an error and forwards nothing
//@ funcs: TrailerHold::new; TrailerHold::write; TrailerHold::flush; TrailerHold::into_trailer
//@ symbolic: all stream bytes
//@ bounds: trailer_len=0; three writes of 0, 3, 1 bytes (per-instance constants); unwind 12
//@ oracle: inner == stream[..len-N]; trailer == stream[len-N..]; len < N => Err and nothing forwarded
//@ stubs: alloc::fmt::format -> stub (only on the too-short error path, text unread)
c10_trailer!(c10_trailer_t0_w031, 0, 0, 3, 1);

//@ name: c10_trailer_t0_w033
//@ prop: C10
//@ tier: thorough
//@ clause: a verified trailer is stripped exactly: the destination sink receives all but the last 0 byte(s) of the stream, the trailer returned is exactly those last bytes, across arbitrary write sizes; a stream shorter than the trailer is an error and forwards nothing
//@ funcs: TrailerHold::new; TrailerHold::write; TrailerHold::flush; TrailerHold::into_trailer
//@ symbolic: all stream bytes
//@ bounds: trailer_len=0; three writes of 0, 3, 3 bytes (per-instance constants); unwind 12
//@ oracle: inner == stream[..len-N]; trailer == stream[len-N..]; len < N => Err and nothing forwarded
//@ stubs: alloc::fmt::format -> stub (only on the too-short error path, text unread)
c10_trailer!(c10_trailer_t0_w033, 0, 0, 3, 3);

//@ name: c10_trailer_t0_w100
//@ prop: C10
//@ tier: thorough
//@ clause: a verified trailer is stripped exactly: the destination sink receives all but the last 0 byte(s) of the stream, the trailer returned is exactly those last bytes, across arbitrary write sizes; a stream shorter than the trailer is an error and forwards nothing
//@ funcs: TrailerHold::new; TrailerHold::write; TrailerHold::flush; TrailerHold::into_trailer
//@ symbolic: all stream bytes
//@ bounds: trailer_len=0; three writes of 1, 0, 0 bytes (per-instance constants); unwind 12
//@ oracle: inner == stream[..len-N]; trailer == stream[len-N..]; len < N => Err and nothing forwarded
//@ stubs: alloc::fmt::format -> stub (only on the too-short error path, text unread)
c10_trailer!(c10_trailer_t0_w100, 0, 1, 0, 0);

//@ name: c10_trailer_t0_w101
//@ prop: C10
//@ tier: thorough
//@ clause: a verified trailer is stripped exactly: the destination sink receives all but the last 0 byte(s) of the stream, the trailer returned is exactly those last bytes, across arbitrary write sizes; a stream shorter than the trailer is an error and forwards nothing
//@ funcs: TrailerHold::new; TrailerHold::write; TrailerHold::flush; TrailerHold::into_trailer
//@ symbolic: all stream bytes
//@ bounds: trailer_len=0; three writes of 1, 0, 1 bytes (per-instance constants); unwind 12
//@ oracle: inner == stream[..len-N]; trailer == stream[len-N..]; len < N => Err and nothing forwarded
//@ stubs: alloc::fmt::format -> stub (only on the too-short error path, text unread)
c10_trailer!(c10_trailer_t0_w101, 0, 1, 0, 1);

//@ name: c10_trailer_t0_w103
//@ prop: C10
//@ tier: thorough
//@ clause: a verified trailer is stripped exactly: the destination sink receives all but the last 0 byte(s) of the stream, the trailer returned is exactly those last bytes, across arbitrary write sizes; a stream shorter than the trailer is an error and forwards nothing
//@ funcs: TrailerHold::new; TrailerHold::write; TrailerHold::flush; TrailerHold::into_trailer
//@ symbolic: all stream bytes
//@ bounds: trailer_len=0; three writes of 1, 0, 3 bytes (per-instance constants); unwind 12
//@ oracle: inner == stream[..len-N]; trailer == stream[len-N..]; len < N => Err and nothing forwarded
//@ stubs: alloc::fmt::format -> stub (only on the too-short error path, text unread)
c10_trailer!(c10_trailer_t0_w103, 0, 1, 0, 3);

//@ name: c10_trailer_t0_w110
//@ prop: C10
//@ tier: thorough
//@ clause: a verified trailer is stripped exactly: the destination sink receives all but the last 0 byte(s) of the stream, the trailer returned is exactly those last bytes, across arbitrary write sizes; a stream shorter than the trailer is an error and forwards nothing
//@ funcs: TrailerHold::new; TrailerHold::write; TrailerHold::flush; TrailerHold::into_trailer
//@ symbolic: all stream bytes
//@ bounds: trailer_len=0; three writes of 1, 1, 0 bytes (per-instance constants); unwind 12
//@ oracle: inner == stream[..len-N]; trailer == stream[len-N..]; len < N => Err and nothing forwarded
//@ stubs: alloc::fmt::format -> stub (only on the too-short error path, text unread)
c10_trailer!(c10_trailer_t0_w110, 0, 1, 1, 0);

//@ name: c10_trailer_t0_w111
//@ prop: C10
//@ tier: thorough
//@ clause: a verified trailer is stripped exactly: the destination sink receives all but the last 0 byte(s) of the stream, the trailer returned is exactly those last bytes, across arbitrary write sizes; a stream shorter than the trailer is an error and forwards nothing
//@ funcs: TrailerHold::new; TrailerHold::write; TrailerHold::flush; TrailerHold::into_trailer
//@ symbolic: all stream bytes
//@ bounds: trailer_len=0; three writes of 1, 1, 1 bytes (per-instance constants); unwind 12
//@ oracle: inner == stream[..len-N]; trailer == stream[len-N..]; len < N => Err and nothing forwarded
//@ stubs: alloc::fmt::format -> stub (only on the too-short error path, text unread)
c10_trailer!(c10_trailer_t0_w111, 0, 1, 1, 1);

//@ name: c10_trailer_t0_w113
//@ prop: C10
//@ tier: thorough
//@ clause: a verified trailer is stripped exactly: the destination sink receives all but the last 0 byte(s) of the stream, the trailer returned is exactly those last bytes, across arbitrary write sizes; a stream shorter than the trailer is an error and forwards nothing
//@ funcs: TrailerHold::new; TrailerHold::write; TrailerHold::flush; TrailerHold::into_trailer
//@ symbolic: all stream bytes
//@ bounds: trailer_len=0; three writes of 1, 1, 3 bytes (per-instance constants); unwind 12
//@ oracle: inner == stream[..len-N]; trailer == stream[len-N..]; len < N => Err and nothing forwarded
//@ stubs: alloc::fmt::format -> stub (only on the too-short error path, text unread)
c10_trailer!(c10_trailer_t0_w113, 0, 1, 1, 3);

//@ name: c10_trailer_t0_w130
//@ prop: C10
//@ tier: thorough
//@ clause: a verified trailer is stripped exactly: the destination sink receives all but the last 0 byte(s) of the stream, the trailer returned is exactly those last bytes, across arbitrary write sizes; a stream shorter than the trailer is an error and forwards nothing
//@ funcs: TrailerHold::new; TrailerHold::write; TrailerHold::flush; TrailerHold::into_trailer
//@ symbolic: all stream bytes
//@ bounds: trailer_len=0; three writes of 1, 3, 0 bytes (per-instance constants); unwind 12
//@ oracle: inner == stream[..len-N]; trailer == stream[len-N..]; len < N => Err and nothing forwarded
//@ stubs: alloc::fmt::format -> stub (only on the too-short error path, text unread)
c10_trailer!(c10_trailer_t0_w130, 0, 1, 3, 0);

//@ name: c10_trailer_t0_w131
//@ prop: C10
//@ tier: thorough
//@ clause: a verified trailer is stripped exactly: the destination sink receives all but the last 0 byte(s) of the stream, the trailer returned is exactly those last bytes, across arbitrary write sizes; a stream shorter than the trailer is an error and forwards nothing
//@ funcs: TrailerHold::new; TrailerHold::write; TrailerHold::flush; TrailerHold::into_trailer
//@ symbolic: all stream bytes
//@ bounds: trailer_len=0; three writes of 1, 3, 1 bytes (per-instance constants); unwind 12
//@ oracle: inner == stream[..len-N]; trailer == stream[len-N..]; len < N => Err and nothing forwarded
//@ stubs: alloc::fmt::format -> stub (only on the too-short error path, text unread)
c10_trailer!(c10_trailer_t0_w131, 0, 1, 3, 1);

//@ name: c10_trailer_t0_w133
//@ prop: C10
//@ tier: thorough
//@ clause: a verified trailer is stripped exactly: the destination sink receives all but the last 0 byte(s) of the stream, the trailer returned is exactly those last bytes, across arbitrary write sizes; a stream shorter than the trailer is an error and forwards nothing
//@ funcs: TrailerHold::new; TrailerHold::write; TrailerHold::flush; TrailerHold::into_trailer
//@ symbolic: all stream bytes
//@ bounds: trailer_len=0; three writes of 1, 3, 3 bytes (per-instance constants); unwind 12
//@ oracle: inner == stream[..len-N]; trailer == stream[len-N..]; len < N => Err and nothing forwarded
//@ stubs: alloc::fmt::format -> stub (only on the too-short error path, text unread)
c10_trailer!(c10_trailer_t0_w133, 0, 1, 3, 3);

//@ name: c10_trailer_t0_w300
//@ prop: C10
//@ tier: thorough
//@ clause: a verified trailer is stripped exactly: the destination sink receives all but the last 0 byte(s) of the stream, the trailer returned is exactly those last bytes, across arbitrary write sizes; a stream shorter than the trailer is an error and forwards nothing
//@ funcs: TrailerHold::new; TrailerHold::write; TrailerHold::flush; TrailerHold::into_trailer
//@ symbolic: all stream bytes
//@ bounds: trailer_len=0; three writes of 3, 0, 0 bytes (per-instance constants); unwind 12
//@ oracle: inner == stream[..len-N]; trailer == stream[len-N..]; len < N => Err and nothing forwarded
//@ stubs: alloc::fmt::format -> stub (only on the too-short error path, text unread)
c10_trailer!(c10_trailer_t0_w300, 0, 3, 0, 0);

//@ name: c10_trailer_t0_w301
//@ prop: C10
//@ tier: thorough
//@ clause: a verified trailer is stripped exactly: the destination sink receives all but the last 0 byte(s) of the stream, the trailer returned is exactly those last bytes, across arbitrary write sizes; a stream shorter than the trailer is an error and forwards nothing
//@ funcs: TrailerHold::new; TrailerHold::write; TrailerHold::flush; TrailerHold::into_trailer
//@ symbolic: all stream bytes
//@ bounds: trailer_len=0; three writes of 3, 0, 1 bytes (per-instance constants); unwind 12
//@ oracle: inner == stream[..len-N]; trailer == stream[len-N..]; len < N => Err and nothing forwarded
//@ stubs: alloc::fmt::format -> stub (only on the too-short error path, text unread)
c10_trailer!(c10_trailer_t0_w301, 0, 3, 0, 1);

//@ name: c10_trailer_t0_w303
//@ prop: C10
//@ tier: thorough
//@ clause: a verified trailer is stripped exactly: the destination sink receives all but the last 0 byte(s) of the stream, the trailer returned is exactly those last bytes, across arbitrary write sizes; a stream shorter than the trailer is an error and forwards nothing
//@ funcs: TrailerHold::new; TrailerHold::write; TrailerHold::flush; TrailerHold::into_trailer
//@ symbolic: all stream bytes
//@ bounds: trailer_len=0; three writes of 3, 0, 3 bytes (per-instance constants); unwind 12
//@ oracle: inner == stream[..len-N]; trailer == stream[len-N..]; len < N => Err and nothing forwarded
//@ stubs: alloc::fmt::format -> stub (only on the too-short error path, text unread)
c10_trailer!(c10_trailer_t0_w303, 0, 3, 0, 3);

//@ name: c10_trailer_t0_w310
//@ prop: C10
//@ tier: thorough
//@ clause: a verified trailer is stripped exactly: the destination sink receives all but the last 0 byte(s) of the stream, the trailer returned is exactly those last bytes, across arbitrary write sizes; a stream shorter than the trailer is an error and forwards nothing
//@ funcs: TrailerHold::new; TrailerHold::write; TrailerHold::flush; TrailerHold::into_trailer
//@ symbolic: all stream bytes
//@ bounds: trailer_len=0; three writes of 3, 1, 0 bytes (per-instance constants); unwind 12
//@ oracle: inner == stream[..len-N]; trailer == stream[len-N..]; len < N => Err and nothing forwarded
//@ stubs: alloc::fmt::format -> stub (only on the too-short error path, text unread)
c10_trailer!(c10_trailer_t0_w310, 0, 3, 1, 0);

//@ name: c10_trailer_t0_w311
//@ prop: C10
//@ tier: thorough
//@ clause: a verified trailer is stripped exactly: the destination sink receives all but the last 0 byte(s) of the stream, the trailer returned is exactly those last bytes, across arbitrary write sizes; a stream shorter than the trailer is an error and forwards nothing
//@ funcs: TrailerHold::new; TrailerHold::write; TrailerHold::flush; TrailerHold::into_trailer
//@ symbolic: all stream bytes
//@ bounds: trailer_len=0; three writes of 3, 1, 1 bytes (per-instance constants); unwind 12
//@ oracle: inner == stream[..len-N]; trailer == stream[len-N..]; len < N => Err and nothing forwarded
//@ stubs: alloc::fmt::format -> stub (only on the too-short error path, text unread)
c10_trailer!(c10_trailer_t0_w311, 0, 3, 1, 1);

//@ name: c10_trailer_t0_w313
//@ prop: C10
//@ tier: thorough
//@ clause: a verified trailer is stripped exactly: the destination sink receives all but the last 0 byte(s) of the stream, the trailer returned is exactly those last bytes, across arbitrary write sizes; a stream shorter than the trailer is an error and forwards nothing
//@ funcs: TrailerHold::new; TrailerHold::write; TrailerHold::flush; TrailerHold::into_trailer
//@ symbolic: all stream bytes
//@ bounds: trailer_len=0; three writes of 3, 1, 3 bytes (per-instance constants); unwind 12
//@ oracle: inner == stream[..len-N]; trailer == stream[len-N..]; len < N => Err and nothing forwarded
//@ stubs: alloc::fmt::format -> stub (only on the too-short error path, text unread)
c10_trailer!(c10_trailer_t0_w313, 0, 3, 1, 3);

//@ name: c10_trailer_t0_w330
//@ prop: C10
//@ tier: thorough
//@ clause: a verified trailer is stripped exactly: the destination sink receives all but the last 0 byte(s) of the stream, the trailer returned is exactly those last bytes, across arbitrary write sizes; a stream shorter than the trailer is an error and forwards nothing
//@ funcs: TrailerHold::new; TrailerHold::write; TrailerHold::flush; TrailerHold::into_trailer
//@ symbolic: all stream bytes
//@ bounds: trailer_len=0; three writes of 3, 3, 0 bytes (per-instance constants); unwind 12
//@ oracle: inner == stream[..len-N]; trailer == stream[len-N..]; len < N => Err and nothing forwarded
//@ stubs: alloc::fmt::format -> stub (only on the too-short error path, text unread)
c10_trailer!(c10_trailer_t0_w330, 0, 3, 3, 0);

//@ name: c10_trailer_t0_w331
//@ prop: C10
//@ tier: thorough
//@ clause: a verified trailer is stripped exactly: the destination sink receives all but the last 0 byte(s) of the stream, the trailer returned is exactly those last bytes, across arbitrary write sizes; a stream shorter than the trailer is an error and forwards nothing
//@ funcs: TrailerHold::new; TrailerHold::write; TrailerHold::flush; TrailerHold::into_trailer
//@ symbolic: all stream bytes
//@ bounds: trailer_len=0; three writes of 3, 3, 1 bytes (per-instance constants); unwind 12
//@ oracle: inner == stream[..len-N]; trailer == stream[len-N..]; len < N => Err and nothing forwarded
//@ stubs: alloc::fmt::format -> stub (only on the too-short error path, text unread)
c10_trailer!(c10_trailer_t0_w331, 0, 3, 3, 1);

//@ name: c10_trailer_t0_w333
//@ prop: C10
//@ tier: thorough
//@ clause: a verified trailer is stripped exactly: the destination sink receives all but the last 0 byte(s) of the stream, the trailer returned is exactly those last bytes, across arbitrary write sizes; a stream shorter than the trailer is an error and forwards nothing
//@ funcs: TrailerHold::new; TrailerHold::write; TrailerHold::flush; TrailerHold::into_trailer
//@ symbolic: all stream bytes
//@ bounds: trailer_len=0; three writes of 3, 3, 3 bytes (per-instance constants); unwind 12
//@ oracle: inner == stream[..len-N]; trailer == stream[len-N..]; len < N => Err and nothing forwarded
//@ stubs: alloc::fmt::format -> stub (only on the too-short error path, text unread)
c10_trailer!(c10_trailer_t0_w333, 0, 3, 3, 3);

//@ name: c10_trailer_t1_w000
//@ prop: C10
//@ tier: thorough
//@ clause: a verified trailer is stripped exactly: the destination sink receives all but the last 1 byte(s) of the stream, the trailer returned is exactly those last bytes, across arbitrary write sizes; a stream shorter than the trailer is an error and forwards nothing
//@ funcs: TrailerHold::new; TrailerHold::write; TrailerHold::flush; TrailerHold::into_trailer
//@ symbolic: all stream bytes
//@ bounds: trailer_len=1; three writes of 0, 0, 0 bytes (per-instance constants); unwind 12
//@ oracle: inner == stream[..len-N]; trailer == stream[len-N..]; len < N => Err and nothing forwarded
//@ stubs: alloc::fmt::format -> stub (only on the too-short error path, text unread)
c10_trailer!(c10_trailer_t1_w000, 1, 0, 0, 0);

//@ name: c10_trailer_t1_w001
//@ prop: C10
//@ tier: thorough
//@ clause: a verified trailer is stripped exactly: the destination sink receives all but the last 1 byte(s) of the stream, the trailer returned is exactly those last bytes, across arbitrary write sizes; a stream shorter than the trailer is an error and forwards nothing
//@ funcs: TrailerHold::new; TrailerHold::write; TrailerHold::flush; TrailerHold::into_trailer
//@ symbolic: all stream bytes
//@ bounds: trailer_len=1; three writes of 0, 0, 1 bytes (per-instance constants); unwind 12
//@ oracle: inner == stream[..len-N]; trailer == stream[len-N..]; len < N => Err and nothing forwarded
//@ stubs: alloc::fmt::format -> stub (only on the too-short error path, text unread)
c10_trailer!(c10_trailer_t1_w001, 1, 0, 0, 1);

//@ name: c10_trailer_t1_w003
//@ prop: C10
//@ tier: thorough
//@ clause: a verified trailer is stripped exactly: the destination sink receives all but the last 1 byte(s) of the stream, the trailer returned is exactly those last bytes, across arbitrary write sizes; a stream shorter than the trailer is an error and forwards nothing
//@ funcs: TrailerHold::new; TrailerHold::write; TrailerHold::flush; TrailerHold::into_trailer
//@ symbolic: all stream bytes
//@ bounds: trailer_len=1; three writes of 0, 0, 3 bytes (per-instance constants); unwind 12
//@ oracle: inner == stream[..len-N]; trailer == stream[len-N..]; len < N => Err and nothing forwarded
//@ stubs: alloc::fmt::format -> stub (only on the too-short error path, text unread)
c10_trailer!(c10_trailer_t1_w003, 1, 0, 0, 3);

//@ name: c10_trailer_t1_w010
//@ prop: C10
//@ tier: thorough
//@ clause: a verified trailer is stripped exactly: the destination sink receives all but the last 1 byte(s) of the stream, the trailer returned is exactly those last bytes, across arbitrary write sizes; a stream shorter than the trailer is an error and forwards nothing
//@ funcs: TrailerHold::new; TrailerHold::write; TrailerHold::flush; TrailerHold::into_trailer
//@ symbolic: all stream bytes
//@ bounds: trailer_len=1; three writes of 0, 1, 0 bytes (per-instance constants); unwind 12
//@ oracle: inner == stream[..len-N]; trailer == stream[len-N..]; len < N => Err and nothing forwarded
//@ stubs: alloc::fmt::format -> stub (only on the too-short error path, text unread)
c10_trailer!(c10_trailer_t1_w010, 1, 0, 1, 0);

//@ name: c10_trailer_t1_w011
//@ prop: C10
//@ tier: thorough
//@ clause: a verified trailer is stripped exactly: the destination sink receives all but the last 1 byte(s) of the stream, the trailer returned is exactly those last bytes, across arbitrary write sizes; a stream shorter than the trailer is an error and forwards nothing
//@ funcs: TrailerHold::new; TrailerHold::write; TrailerHold::flush; TrailerHold::into_trailer
//@ symbolic: all stream bytes
//@ bounds: trailer_len=1; three writes of 0, 1, 1 bytes (per-instance constants); unwind 12
//@ oracle: inner == stream[..len-N]; trailer == stream[len-N..]; len < N => Err and nothing forwarded
//@ stubs: alloc::fmt::format -> stub (only on the too-short error path, text unread)
c10_trailer!(c10_trailer_t1_w011, 1, 0, 1, 1);

//@ name: c10_trailer_t1_w013
//@ prop: C10
//@ tier: thorough
//@ clause: a verified trailer is stripped exactly: the destination sink receives all but the last 1 byte(s) of the stream, the trailer returned is exactly those last bytes, across arbitrary write sizes; a stream shorter than the trailer is an error and forwards nothing
//@ funcs: TrailerHold::new; TrailerHold::write; TrailerHold::flush; TrailerHold::into_trailer
//@ symbolic: all stream bytes
//@ bounds: trailer_len=1; three writes of 0, 1, 3 bytes (per-instance constants); unwind 12
//@ oracle: inner == stream[..len-N]; trailer == stream[len-N..]; len < N => Err and nothing forwarded
//@ stubs: alloc::fmt::format -> stub (only on the too-short error path, text unread)
c10_trailer!(c10_trailer_t1_w013, 1, 0, 1, 3);

//@ name: c10_trailer_t1_w030
//@ prop: C10
//@ tier: thorough
//@ clause: a verified trailer is stripped exactly: the destination sink receives all but the last 1 byte(s) of the stream, the trailer returned is exactly those last bytes, across arbitrary write sizes; a stream shorter than the trailer is an error and forwards nothing
//@ funcs: TrailerHold::new; TrailerHold::write; TrailerHold::flush; TrailerHold::into_trailer
//@ symbolic: all stream bytes
//@ bounds: trailer_len=1; three writes of 0, 3, 0 bytes (per-instance constants); unwind 12
//@ oracle: inner == stream[..len-N]; trailer == stream[len-N..]; len < N => Err and nothing forwarded
//@ stubs: alloc::fmt::format -> stub (only on the too-short error path, text unread)
c10_trailer!(c10_trailer_t1_w030, 1, 0, 3, 0);

//@ name: c10_trailer_t1_w031
//@ prop: C10
//@ tier: thorough
//@ clause: a verified trailer is stripped exactly: the destination sink receives all but the last 1 byte(s) of the stream, the trailer returned is exactly those last bytes, across arbitrary write sizes; a stream shorter than the trailer is an error and forwards nothing
//@ funcs: TrailerHold::new; TrailerHold::write; TrailerHold::flush; TrailerHold::into_trailer
//@ symbolic: all stream bytes
//@ bounds: trailer_len=1; three writes of 0, 3, 1 bytes (per-instance constants); unwind 12
//@ oracle: inner == stream[..len-N]; trailer == stream[len-N..]; len < N => Err and nothing forwarded
//@ stubs: alloc::fmt::format -> stub (only on the too-short error path, text unread)
c10_trailer!(c10_trailer_t1_w031, 1, 0, 3, 1);

//@ name: c10_trailer_t1_w033
//@ prop: C10
//@ tier: thorough
//@ clause: a verified trailer is stripped exactly: the destination sink receives all but the last 1 byte(s) of the stream, the trailer returned is exactly those last bytes, across arbitrary write sizes; a stream shorter than the trailer is an error and forwards nothing
//@ funcs: TrailerHold::new; TrailerHold::write; TrailerHold::flush; TrailerHold::into_trailer
//@ symbolic: all stream bytes
//@ bounds: trailer_len=1; three writes of 0, 3, 3 bytes (per-instance constants); unwind 12
//@ oracle: inner == stream[..len-N]; trailer == stream[len-N..]; len < N => Err and nothing forwarded
//@ stubs: alloc::fmt::format -> stub (only on the too-short error path, text unread)
c10_trailer!(c10_trailer_t1_w033, 1, 0, 3, 3);

//@ name: c10_trailer_t1_w100
//@ prop: C10
//@ tier: thorough
//@ clause: a verified trailer is stripped exactly: the destination sink receives all but the last 1 byte(s) of the stream, the trailer returned is exactly those last bytes, across arbitrary write sizes; a stream shorter than the trailer is an error and forwards nothing
//@ funcs: TrailerHold::new; TrailerHold::write; TrailerHold::flush; TrailerHold::into_trailer
//@ symbolic: all stream bytes
//@ bounds: trailer_len=1; three writes of 1, 0, 0 bytes (per-instance constants); unwind 12
//@ oracle: inner == stream[..len-N]; trailer == stream[len-N..]; len < N => Err and nothing forwarded
//@ stubs: alloc::fmt::format -> stub (only on the too-short error path, text unread)
c10_trailer!(c10_trailer_t1_w100, 1, 1, 0, 0);

//@ name: c10_trailer_t1_w101
//@ prop: C10
//@ tier: thorough
//@ clause: a verified trailer is stripped exactly: the destination sink receives all but the last 1 byte(s) of the stream, the trailer returned is exactly those last bytes, across arbitrary write sizes; a stream shorter than the trailer is an error and forwards nothing
//@ funcs: TrailerHold::new; TrailerHold::write; TrailerHold::flush; TrailerHold::into_trailer
//@ symbolic: all stream bytes
//@ bounds: trailer_len=1; three writes of 1, 0, 1 bytes (per-instance constants); unwind 12
//@ oracle: inner == stream[..len-N]; trailer == stream[len-N..]; len < N => Err and nothing forwarded
//@ stubs: alloc::fmt::format -> stub (only on the too-short error path, text unread)
c10_trailer!(c10_trailer_t1_w101, 1, 1, 0, 1);

//@ name: c10_trailer_t1_w103
//@ prop: C10
//@ tier: thorough
//@ clause: a verified trailer is stripped exactly: the destination sink receives all but the last 1 byte(s) of the stream, the trailer returned is exactly those last bytes, across arbitrary write sizes; a stream shorter than the trailer is an error and forwards nothing
//@ funcs: TrailerHold::new; TrailerHold::write; TrailerHold::flush; TrailerHold::into_trailer
//@ symbolic: all stream bytes
//@ bounds: trailer_len=1; three writes of 1, 0, 3 bytes (per-instance constants); unwind 12
//@ oracle: inner == stream[..len-N]; trailer == stream[len-N..]; len < N => Err and nothing forwarded
//@ stubs: alloc::fmt::format -> stub (only on the too-short error path, text unread)
c10_trailer!(c10_trailer_t1_w103, 1, 1, 0, 3);

//@ name: c10_trailer_t1_w110
//@ prop: C10
//@ tier: thorough
//@ clause: a verified trailer is stripped exactly: the destination sink receives all but the last 1 byte(s) of the stream, the trailer returned is exactly those last bytes, across arbitrary write sizes; a stream shorter than the trailer is an error and forwards nothing
//@ funcs: TrailerHold::new; TrailerHold::write; TrailerHold::flush; TrailerHold::into_trailer
//@ symbolic: all stream bytes
//@ bounds: trailer_len=1; three writes of 1, 1, 0 bytes (per-instance constants); unwind 12
//@ oracle: inner == stream[..len-N]; trailer == stream[len-N..]; len < N => Err and nothing forwarded
//@ stubs: alloc::fmt::format -> stub (only on the too-short error path, text unread)
c10_trailer!(c10_trailer_t1_w110, 1, 1, 1, 0);

//@ name: c10_trailer_t1_w111
//@ prop: C10
//@ tier: thorough
//@ clause: a verified trailer is stripped exactly: the destination sink receives all but the last 1 byte(s) of the stream, the trailer returned is exactly those last bytes, across arbitrary write sizes; a stream shorter than the trailer is an error and forwards nothing
//@ funcs: TrailerHold::new; TrailerHold::write; TrailerHold::flush; TrailerHold::into_trailer
//@ symbolic: all stream bytes
//@ bounds: trailer_len=1; three writes of 1, 1, 1 bytes (per-instance constants); unwind 12
//@ oracle: inner == stream[..len-N]; trailer == stream[len-N..]; len < N => Err and nothing forwarded
//@ stubs: alloc::fmt::format -> stub (only on the too-short error path, text unread)
c10_trailer!(c10_trailer_t1_w111, 1, 1, 1, 1);

//@ name: c10_trailer_t1_w113
//@ prop: C10
//@ tier: thorough
//@ clause: a verified trailer is stripped exactly: the destination sink receives all but the last 1 byte(s) of the stream, the trailer returned is exactly those last bytes, across arbitrary write sizes; a stream shorter than the trailer is an error and forwards nothing
//@ funcs: TrailerHold::new; TrailerHold::write; TrailerHold::flush; TrailerHold::into_trailer
//@ symbolic: all stream bytes
//@ bounds: trailer_len=1; three writes of 1, 1, 3 bytes (per-instance constants); unwind 12
//@ oracle: inner == stream[..len-N]; trailer == stream[len-N..]; len < N => Err and nothing forwarded
//@ stubs: alloc::fmt::format -> stub (only on the too-short error path, text unread)
c10_trailer!(c10_trailer_t1_w113, 1, 1, 1, 3);

//@ name: c10_trailer_t1_w130
//@ prop: C10
//@ tier: thorough
//@ clause: a verified trailer is stripped exactly: the destination sink receives all but the last 1 byte(s) of the stream, the trailer returned is exactly those last bytes, across arbitrary write sizes; a stream shorter than the trailer is an error and forwards nothing
//@ funcs: TrailerHold::new; TrailerHold::write; TrailerHold::flush; TrailerHold::into_trailer
//@ symbolic: all stream bytes
//@ bounds: trailer_len=1; three writes of 1, 3, 0 bytes (per-instance constants); unwind 12
//@ oracle: inner == stream[..len-N]; trailer == stream[len-N..]; len < N => Err and nothing forwarded
//@ stubs: alloc::fmt::format -> stub (only on the too-short error path, text unread)
c10_trailer!(c10_trailer_t1_w130, 1, 1, 3, 0);

//@ name: c10_trailer_t1_w131
//@ prop: C10
//@ tier: thorough
//@ clause: a verified trailer is stripped exactly: the destination sink receives all but the last 1 byte(s) of the stream, the trailer returned is exactly those last bytes, across arbitrary write sizes; a stream shorter than the trailer is an error and forwards nothing
//@ funcs: TrailerHold::new; TrailerHold::write; TrailerHold::flush; TrailerHold::into_trailer
//@ symbolic: all stream bytes
//@ bounds: trailer_len=1; three writes of 1, 3, 1 bytes (per-instance constants); unwind 12
//@ oracle: inner == stream[..len-N]; trailer == stream[len-N..]; len < N => Err and nothing forwarded
//@ stubs: alloc::fmt::format -> stub (only on the too-short error path, text unread)
c10_trailer!(c10_trailer_t1_w131, 1, 1, 3, 1);

//@ name: c10_trailer_t1_w133
//@ prop: C10
//@ tier: thorough
//@ clause: a verified trailer is stripped exactly: the destination sink receives all but the last 1 byte(s) of the stream, the trailer returned is exactly those last bytes, across arbitrary write sizes; a stream shorter than the trailer is an error and forwards nothing
//@ funcs: TrailerHold::new; TrailerHold::write; TrailerHold::flush; TrailerHold::into_trailer
//@ symbolic: all stream bytes
//@ bounds: trailer_len=1; three writes of 1, 3, 3 bytes (per-instance constants); unwind 12
//@ oracle: inner == stream[..len-N]; trailer == stream[len-N..]; len < N => Err and nothing forwarded
//@ stubs: alloc::fmt::format -> stub (only on the too-short error path, text unread)
c10_trailer!(c10_trailer_t1_w133, 1, 1, 3, 3);

//@ name: c10_trailer_t1_w300
//@ prop: C10
//@ tier: thorough
//@ clause: a verified trailer is stripped exactly: the destination sink receives all but the last 1 byte(s) of the stream, the trailer returned is exactly those last bytes, across arbitrary write sizes; a stream shorter than the trailer is an error and forwards nothing
//@ funcs: TrailerHold::new; TrailerHold::write; TrailerHold::flush; TrailerHold::into_trailer
//@ symbolic: all stream bytes
//@ bounds: trailer_len=1; three writes of 3, 0, 0 bytes (per-instance constants); unwind 12
//@ oracle: inner == stream[..len-N]; trailer == stream[len-N..]; len < N => Err and nothing forwarded
//@ stubs: alloc::fmt::format -> stub (only on the too-short error path, text unread)
c10_trailer!(c10_trailer_t1_w300, 1, 3, 0, 0);

//@ name: c10_trailer_t1_w301
//@ prop: C10
//@ tier: thorough
//@ clause: a verified trailer is stripped exactly: the destination sink receives all but the last 1 byte(s) of the stream, the trailer returned is exactly those last bytes, across arbitrary write sizes; a stream shorter than the trailer is an error and forwards nothing
//@ funcs: TrailerHold::new; TrailerHold::write; TrailerHold::flush; TrailerHold::into_trailer
//@ symbolic: all stream bytes
//@ bounds: trailer_len=1; three writes of 3, 0, 1 bytes (per-instance constants); unwind 12
//@ oracle: inner == stream[..len-N]; trailer == stream[len-N..]; len < N => Err and nothing forwarded
//@ stubs: alloc::fmt::format -> stub (only on the too-short error path, text unread)
c10_trailer!(c10_trailer_t1_w301, 1, 3, 0, 1);

//@ name: c10_trailer_t1_w303
//@ prop: C10
//@ tier: thorough
//@ clause: a verified trailer is stripped exactly: the destination sink receives all but the last 1 byte(s) of the stream, the trailer returned is exactly those last bytes, across arbitrary write sizes; a stream shorter than the trailer is an error and forwards nothing
//@ funcs: TrailerHold::new; TrailerHold::write; TrailerHold::flush; TrailerHold::into_trailer
//@ symbolic: all stream bytes
//@ bounds: trailer_len=1; three writes of 3, 0, 3 bytes (per-instance constants); unwind 12
//@ oracle: inner == stream[..len-N]; trailer == stream[len-N..]; len < N => Err and nothing forwarded
//@ stubs: alloc::fmt::format -> stub (only on the too-short error path, text unread)
c10_trailer!(c10_trailer_t1_w303, 1, 3, 0, 3);

//@ name: c10_trailer_t1_w310
//@ prop: C10
//@ tier: thorough
//@ clause: a verified trailer is stripped exactly: the destination sink receives all but the last 1 byte(s) of the stream, the trailer returned is exactly those last bytes, across arbitrary write sizes; a stream shorter than the trailer is an error and forwards nothing
//@ funcs: TrailerHold::new; TrailerHold::write; TrailerHold::flush; TrailerHold::into_trailer
//@ symbolic: all stream bytes
//@ bounds: trailer_len=1; three writes of 3, 1, 0 bytes (per-instance constants); unwind 12
//@ oracle: inner == stream[..len-N]; trailer == stream[len-N..]; len < N => Err and nothing forwarded
//@ stubs: alloc::fmt::format -> stub (only on the too-short error path, text unread)
c10_trailer!(c10_trailer_t1_w310, 1, 3, 1, 0);

//@ name: c10_trailer_t1_w311
//@ prop: C10
//@ tier: thorough
//@ clause: a verified trailer is stripped exactly: the destination sink receives all but the last 1 byte(s) of the stream, the trailer returned is exactly those last bytes, across arbitrary write sizes; a stream shorter than the trailer is an error and forwards nothing
//@ funcs: TrailerHold::new; TrailerHold::write; TrailerHold::flush; TrailerHold::into_trailer
//@ symbolic: all stream bytes
//@ bounds: trailer_len=1; three writes of 3, 1, 1 bytes (per-instance constants); unwind 12
//@ oracle: inner == stream[..len-N]; trailer == stream[len-N..]; len < N => Err and nothing forwarded
//@ stubs: alloc::fmt::format -> stub (only on the too-short error path, text unread)
c10_trailer!(c10_trailer_t1_w311, 1, 3, 1, 1);

//@ name: c10_trailer_t1_w313
//@ prop: C10
//@ tier: thorough
//@ clause: a verified trailer is stripped exactly: the destination sink receives all but the last 1 byte(s) of the stream, the trailer returned is exactly those last bytes, across arbitrary write sizes; a stream shorter than the trailer is an error and forwards nothing
//@ funcs: TrailerHold::new; TrailerHold::write; TrailerHold::flush; TrailerHold::into_trailer
//@ symbolic: all stream bytes
//@ bounds: trailer_len=1; three writes of 3, 1, 3 bytes (per-instance constants); unwind 12
//@ oracle: inner == stream[..len-N]; trailer == stream[len-N..]; len < N => Err and nothing forwarded
//@ stubs: alloc::fmt::format -> stub (only on the too-short error path, text unread)
c10_trailer!(c10_trailer_t1_w313, 1, 3, 1, 3);

//@ name: c10_trailer_t1_w330
//@ prop: C10
//@ tier: thorough
//@ clause: a verified trailer is stripped exactly: the destination sink receives all but the last 1 byte(s) of the stream, the trailer returned is exactly those last bytes, across arbitrary write sizes; a stream shorter than the trailer is an error and forwards nothing
//@ funcs: TrailerHold::new; TrailerHold::write; TrailerHold::flush; TrailerHold::into_trailer
//@ symbolic: all stream bytes
//@ bounds: trailer_len=1; three writes of 3, 3, 0 bytes (per-instance constants); unwind 12
//@ oracle: inner == stream[..len-N]; trailer == stream[len-N..]; len < N => Err and nothing forwarded
//@ stubs: alloc::fmt::format -> stub (only on the too-short error path, text unread)
c10_trailer!(c10_trailer_t1_w330, 1, 3, 3, 0);

//@ name: c10_trailer_t1_w331
//@ prop: C10
//@ tier: thorough
//@ clause: a verified trailer is stripped exactly: the destination sink receives all but the last 1 byte(s) of the stream, the trailer returned is exactly those last bytes, across arbitrary write sizes; a stream shorter than the trailer is an error and forwards nothing
//@ funcs: TrailerHold::new; TrailerHold::write; TrailerHold::flush; TrailerHold::into_trailer
//@ symbolic: all stream bytes
//@ bounds: trailer_len=1; three writes of 3, 3, 1 bytes (per-instance constants); unwind 12
//@ oracle: inner == stream[..len-N]; trailer == stream[len-N..]; len < N => Err and nothing forwarded
//@ stubs: alloc::fmt::format -> stub (only on the too-short error path, text unread)
c10_trailer!(c10_trailer_t1_w331, 1, 3, 3, 1);

//@ name: c10_trailer_t1_w333
//@ prop: C10
//@ tier: thorough
//@ clause: a verified trailer is stripped exactly: the destination sink receives all but the last 1 byte(s) of the stream, the trailer returned is exactly those last bytes, across arbitrary write sizes; a stream shorter than the trailer is an error and forwards nothing
//@ funcs: TrailerHold::new; TrailerHold::write; TrailerHold::flush; TrailerHold::into_trailer
//@ symbolic: all stream bytes
//@ bounds: trailer_len=1; three writes of 3, 3, 3 bytes (per-instance constants); unwind 12
//@ oracle: inner == stream[..len-N]; trailer == stream[len-N..]; len < N => Err and nothing forwarded
//@ stubs: alloc::fmt::format -> stub (only on the too-short error path, text unread)
c10_trailer!(c10_trailer_t1_w333, 1, 3, 3, 3);

//@ name: c10_trailer_t2_w000
//@ prop: C10
//@ tier: thorough
//@ clause: a verified trailer is stripped exactly: the destination sink receives all but the last 2 byte(s) of the stream, the trailer returned is exactly those last bytes, across arbitrary write sizes; a stream shorter than the trailer is an error and forwards nothing
//@ funcs: TrailerHold::new; TrailerHold::write; TrailerHold::flush; TrailerHold::into_trailer
//@ symbolic: all stream bytes
//@ bounds: trailer_len=2; three writes of 0, 0, 0 bytes (per-instance constants); unwind 12
//@ oracle: inner == stream[..len-N]; trailer == stream[len-N..]; len < N => Err and nothing forwarded
//@ stubs: alloc::fmt::format -> stub (only on the too-short error path, text unread)
c10_trailer!(c10_trailer_t2_w000, 2, 0, 0, 0);

//@ name: c10_trailer_t2_w001
//@ prop: C10
//@ tier: thorough
//@ clause: a verified trailer is stripped exactly: the destination sink receives all but the last 2 byte(s) of the stream, the trailer returned is exactly those last bytes, across arbitrary write sizes; a stream shorter than the trailer is an error and forwards nothing
//@ funcs: TrailerHold::new; TrailerHold::write; TrailerHold::flush; TrailerHold::into_trailer
//@ symbolic: all stream bytes
//@ bounds: trailer_len=2; three writes of 0, 0, 1 bytes (per-instance constants); unwind 12
//@ oracle: inner == stream[..len-N]; trailer == stream[len-N..]; len < N => Err and nothing forwarded
//@ stubs: alloc::fmt::format -> stub (only on the too-short error path, text unread)
c10_trailer!(c10_trailer_t2_w001, 2, 0, 0, 1);

//@ name: c10_trailer_t2_w003
//@ prop: C10
//@ tier: thorough
//@ clause: a verified trailer is stripped exactly: the destination sink receives all but the last 2 byte(s) of the stream, the trailer returned is exactly those last bytes, across arbitrary write sizes; a stream shorter than the trailer is an error and forwards nothing
//@ funcs: TrailerHold::new; TrailerHold::write; TrailerHold::flush; TrailerHold::into_trailer
//@ symbolic: all stream bytes
//@ bounds: trailer_len=2; three writes of 0, 0, 3 bytes (per-instance constants); unwind 12
//@ oracle: inner == stream[..len-N]; trailer == stream[len-N..]; len < N => Err and nothing forwarded
//@ stubs: alloc::fmt::format -> stub (only on the too-short error path, text unread)
c10_trailer!(c10_trailer_t2_w003, 2, 0, 0, 3);

//@ name: c10_trailer_t2_w010
//@ prop: C10
//@ tier: thorough
//@ clause: a verified trailer is stripped exactly: the destination sink receives all but the last 2 byte(s) of the stream, the trailer returned is exactly those last bytes, across arbitrary write sizes; a stream shorter than the trailer is an error and forwards nothing
//@ funcs: TrailerHold::new; TrailerHold::write; TrailerHold::flush; TrailerHold::into_trailer
//@ symbolic: all stream bytes
//@ bounds: trailer_len=2; three writes of 0, 1, 0 bytes (per-instance constants); unwind 12
//@ oracle: inner == stream[..len-N]; trailer == stream[len-N..]; len < N => Err and nothing forwarded
//@ stubs: alloc::fmt::format -> stub (only on the too-short error path, text unread)
c10_trailer!(c10_trailer_t2_w010, 2, 0, 1, 0);

//@ name: c10_trailer_t2_w011
//@ prop: C10
//@ tier: thorough
//@ clause: a verified trailer is stripped exactly: the destination sink receives all but the last 2 byte(s) of the stream, the trailer returned is exactly those last bytes, across arbitrary write sizes; a stream shorter than the trailer is an error and forwards nothing
//@ funcs: TrailerHold::new; TrailerHold::write; TrailerHold::flush; TrailerHold::into_trailer
//@ symbolic: all stream bytes
//@ bounds: trailer_len=2; three writes of 0, 1, 1 bytes (per-instance constants); unwind 12
//@ oracle: inner == stream[..len-N]; trailer == stream[len-N..]; len < N => Err and nothing forwarded
//@ stubs: alloc::fmt::format -> stub (only on the too-short error path, text unread)
c10_trailer!(c10_trailer_t2_w011, 2, 0, 1, 1);

//@ name: c10_trailer_t2_w013
//@ prop: C10
//@ tier: thorough
//@ clause: a verified trailer is stripped exactly: the destination sink receives all but the last 2 byte(s) of the stream, the trailer returned is exactly those last bytes, across arbitrary write sizes; a stream shorter than the trailer is an error and forwards nothing
//@ funcs: TrailerHold::new; TrailerHold::write; TrailerHold::flush; TrailerHold::into_trailer
//@ symbolic: all stream bytes
//@ bounds: trailer_len=2; three writes of 0, 1, 3 bytes (per-instance constants); unwind 12
//@ oracle: inner == stream[..len-N]; trailer == stream[len-N..]; len < N => Err and nothing forwarded
//@ stubs: alloc::fmt::format -> stub (only on the too-short error path, text unread)
c10_trailer!(c10_trailer_t2_w013, 2, 0, 1, 3);

//@ name: c10_trailer_t2_w030
//@ prop: C10
//@ tier: thorough
//@ clause: a verified trailer is stripped exactly: the destination sink receives all but the last 2 byte(s) of the stream, the trailer returned is exactly those last bytes, across arbitrary write sizes; a stream shorter than the trailer is an error and forwards nothing
//@ funcs: TrailerHold::new; TrailerHold::write; TrailerHold::flush; TrailerHold::into_trailer
//@ symbolic: all stream bytes
//@ bounds: trailer_len=2; three writes of 0, 3, 0 bytes (per-instance constants); unwind 12
//@ oracle: inner == stream[..len-N]; trailer == stream[len-N..]; len < N => Err and nothing forwarded
//@ stubs: alloc::fmt::format -> stub (only on the too-short error path, text unread)
c10_trailer!(c10_trailer_t2_w030, 2, 0, 3, 0);

//@ name: c10_trailer_t2_w031
//@ prop: C10
//@ tier: thorough
//@ clause: a verified trailer is stripped exactly: the destination sink receives all but the last 2 byte(s) of the stream, the trailer returned is exactly those last bytes, across arbitrary write sizes; a stream shorter than the trailer is an error and forwards nothing
//@ funcs: TrailerHold::new; TrailerHold::write; TrailerHold::flush; TrailerHold::into_trailer
//@ symbolic: all stream bytes
//@ bounds: trailer_len=2; three writes of 0, 3, 1 bytes (per-instance constants); unwind 12
//@ oracle: inner == stream[..len-N]; trailer == stream[len-N..]; len < N => Err and nothing forwarded
//@ stubs: alloc::fmt::format -> stub (only on the too-short error path, text unread)
c10_trailer!(c10_trailer_t2_w031, 2, 0, 3, 1);

//@ name: c10_trailer_t2_w033
//@ prop: C10
//@ tier: thorough
//@ clause: a verified trailer is stripped exactly: the destination sink receives all but the last 2 byte(s) of the stream, the trailer returned is exactly those last bytes, across arbitrary write sizes; a stream shorter than the trailer is an error and forwards nothing
//@ funcs: TrailerHold::new; TrailerHold::write; TrailerHold::flush; TrailerHold::into_trailer
//@ symbolic: all stream bytes
//@ bounds: trailer_len=2; three writes of 0, 3, 3 bytes (per-instance constants); unwind 12
//@ oracle: inner == stream[..len-N]; trailer == stream[len-N..]; len < N => Err and nothing forwarded
//@ stubs: alloc::fmt::format -> stub (only on the too-short error path, text unread)
c10_trailer!(c10_trailer_t2_w033, 2, 0, 3, 3);

//@ name: c10_trailer_t2_w100
//@ prop: C10
//@ tier: thorough
//@ clause: a verified trailer is stripped exactly: the destination sink receives all but the last 2 byte(s) of the stream, the trailer returned is exactly those last bytes, across arbitrary write sizes; a stream shorter than the trailer is an error and forwards nothing
//@ funcs: TrailerHold::new; TrailerHold::write; TrailerHold::flush; TrailerHold::into_trailer
//@ symbolic: all stream bytes
//@ bounds: trailer_len=2; three writes of 1, 0, 0 bytes (per-instance constants); unwind 12
//@ oracle: inner == stream[..len-N]; trailer == stream[len-N..]; len < N => Err and nothing forwarded
//@ stubs: alloc::fmt::format -> stub (only on the too-short error path, text unread)
c10_trailer!(c10_trailer_t2_w100, 2, 1, 0, 0);

//@ name: c10_trailer_t2_w101
//@ prop: C10
//@ tier: thorough
//@ clause: a verified trailer is stripped exactly: the destination sink receives all but the last 2 byte(s) of the stream, the trailer returned is exactly those last bytes, across arbitrary write sizes; a stream shorter than the trailer is an error and forwards nothing
//@ funcs: TrailerHold::new; TrailerHold::write; TrailerHold::flush; TrailerHold::into_trailer
//@ symbolic: all stream bytes
//@ bounds: trailer_len=2; three writes of 1, 0, 1 bytes (per-instance constants); unwind 12
//@ oracle: inner == stream[..len-N]; trailer == stream[len-N..]; len < N => Err and nothing forwarded
//@ stubs: alloc::fmt::format -> stub (only on the too-short error path, text unread)
c10_trailer!(c10_trailer_t2_w101, 2, 1, 0, 1);

//@ name: c10_trailer_t2_w103
//@ prop: C10
//@ tier: thorough
//@ clause: a verified trailer is stripped exactly: the destination sink receives all but the last 2 byte(s) of the stream, the trailer returned is exactly those last bytes, across arbitrary write sizes; a stream shorter than the trailer is an error and forwards nothing
//@ funcs: TrailerHold::new; TrailerHold::write; TrailerHold::flush; TrailerHold::into_trailer
//@ symbolic: all stream bytes
//@ bounds: trailer_len=2; three writes of 1, 0, 3 bytes (per-instance constants); unwind 12
//@ oracle: inner == stream[..len-N]; trailer == stream[len-N..]; len < N => Err and nothing forwarded
//@ stubs: alloc::fmt::format -> stub (only on the too-short error path, text unread)
c10_trailer!(c10_trailer_t2_w103, 2, 1, 0, 3);

//@ name: c10_trailer_t2_w110
//@ prop: C10
//@ tier: thorough
//@ clause: a verified trailer is stripped exactly: the destination sink receives all but the last 2 byte(s) of the stream, the trailer returned is exactly those last bytes, across arbitrary write sizes; a stream shorter than the trailer is an error and forwards nothing
//@ funcs: TrailerHold::new; TrailerHold::write; TrailerHold::flush; TrailerHold::into_trailer
//@ symbolic: all stream bytes
//@ bounds: trailer_len=2; three writes of 1, 1, 0 bytes (per-instance constants); unwind 12
//@ oracle: inner == stream[..len-N]; trailer == stream[len-N..]; len < N => Err and nothing forwarded
//@ stubs: alloc::fmt::format -> stub (only on the too-short error path, text unread)
c10_trailer!(c10_trailer_t2_w110, 2, 1, 1, 0);

//@ name: c10_trailer_t2_w111
//@ prop: C10
//@ tier: thorough
//@ clause: a verified trailer is stripped exactly: the destination sink receives all but the last 2 byte(s) of the stream, the trailer returned is exactly those last bytes, across arbitrary write sizes; a stream shorter than the trailer is an error and forwards nothing
//@ funcs: TrailerHold::new; TrailerHold::write; TrailerHold::flush; TrailerHold::into_trailer
//@ symbolic: all stream bytes
//@ bounds: trailer_len=2; three writes of 1, 1, 1 bytes (per-instance constants); unwind 12
//@ oracle: inner == stream[..len-N]; trailer == stream[len-N..]; len < N => Err and nothing forwarded
//@ stubs: alloc::fmt::format -> stub (only on the too-short error path, text unread)
c10_trailer!(c10_trailer_t2_w111, 2, 1, 1, 1);

//@ name: c10_trailer_t2_w113
//@ prop: C10
//@ tier: thorough
//@ clause: a verified trailer is stripped exactly: the destination sink receives all but the last 2 byte(s) of the stream, the trailer returned is exactly those last bytes, across arbitrary write sizes; a stream shorter than the trailer is an error and forwards nothing
//@ funcs: TrailerHold::new; TrailerHold::write; TrailerHold::flush; TrailerHold::into_trailer
//@ symbolic: all stream bytes
//@ bounds: trailer_len=2; three writes of 1, 1, 3 bytes (per-instance constants); unwind 12
//@ oracle: inner == stream[..len-N]; trailer == stream[len-N..]; len < N => Err and nothing forwarded
//@ stubs: alloc::fmt::format -> stub (only on the too-short error path, text unread)
c10_trailer!(c10_trailer_t2_w113, 2, 1, 1, 3);

//@ name: c10_trailer_t2_w130
//@ prop: C10
//@ tier: thorough
//@ clause: a verified trailer is stripped exactly: the destination sink receives all but the last 2 byte(s) of the stream, the trailer returned is exactly those last bytes, across arbitrary write sizes; a stream shorter than the trailer is an error and forwards nothing
//@ funcs: TrailerHold::new; TrailerHold::write; TrailerHold::flush; TrailerHold::into_trailer
//@ symbolic: all stream bytes
//@ bounds: trailer_len=2; three writes of 1, 3, 0 bytes (per-instance constants); unwind 12
//@ oracle: inner == stream[..len-N]; trailer == stream[len-N..]; len < N => Err and nothing forwarded
//@ stubs: alloc::fmt::format -> stub (only on the too-short error path, text unread)
c10_trailer!(c10_trailer_t2_w130, 2, 1, 3, 0);

//@ name: c10_trailer_t2_w133
//@ prop: C10
//@ tier: thorough
//@ clause: a verified trailer is stripped exactly: the destination sink receives all but the last 2 byte(s) of the stream, the trailer returned is exactly those last bytes, across arbitrary write sizes; a stream shorter than the trailer is an error and forwards nothing
//@ funcs: TrailerHold::new; TrailerHold::write; TrailerHold::flush; TrailerHold::into_trailer
//@ symbolic: all stream bytes
//@ bounds: trailer_len=2; three writes of 1, 3, 3 bytes (per-instance constants); unwind 12
//@ oracle: inner == stream[..len-N]; trailer == stream[len-N..]; len < N => Err and nothing forwarded
//@ stubs: alloc::fmt::format -> stub (only on the too-short error path, text unread)
c10_trailer!(c10_trailer_t2_w133, 2, 1, 3, 3);

//@ name: c10_trailer_t2_w300
//@ prop: C10
//@ tier: thorough
//@ clause: a verified trailer is stripped exactly: the destination sink receives all but the last 2 byte(s) of the stream, the trailer returned is exactly those last bytes, across arbitrary write sizes; a stream shorter than the trailer is an error and forwards nothing
//@ funcs: TrailerHold::new; TrailerHold::write; TrailerHold::flush; TrailerHold::into_trailer
//@ symbolic: all stream bytes
//@ bounds: trailer_len=2; three writes of 3, 0, 0 bytes (per-instance constants); unwind 12
//@ oracle: inner == stream[..len-N]; trailer == stream[len-N..]; len < N => Err and nothing forwarded
//@ stubs: alloc::fmt::format -> stub (only on the too-short error path, text unread)
c10_trailer!(c10_trailer_t2_w300, 2, 3, 0, 0);

//@ name: c10_trailer_t2_w301
//@ prop: C10
//@ tier: thorough
//@ clause: a verified trailer is stripped exactly: the destination sink receives all but the last 2 byte(s) of the stream, the trailer returned is exactly those last bytes, across arbitrary write sizes; a stream shorter than the trailer is an error and forwards nothing
//@ funcs: TrailerHold::new; TrailerHold::write; TrailerHold::flush; TrailerHold::into_trailer
//@ symbolic: all stream bytes
//@ bounds: trailer_len=2; three writes of 3, 0, 1 bytes (per-instance constants); unwind 12
//@ oracle: inner == stream[..len-N]; trailer == stream[len-N..]; len < N => Err and nothing forwarded
//@ stubs: alloc::fmt::format -> stub (only on the too-short error path, text unread)
c10_trailer!(c10_trailer_t2_w301, 2, 3, 0, 1);

//@ name: c10_trailer_t2_w303
//@ prop: C10
//@ tier: thorough
//@ clause: a verified trailer is stripped exactly: the destination sink receives all but the last 2 byte(s) of the stream, the trailer returned is exactly those last bytes, across arbitrary write sizes; a stream shorter than the trailer is an error and forwards nothing
//@ funcs: TrailerHold::new; TrailerHold::write; TrailerHold::flush; TrailerHold::into_trailer
//@ symbolic: all stream bytes
//@ bounds: trailer_len=2; three writes of 3, 0, 3 bytes (per-instance constants); unwind 12
//@ oracle: inner == stream[..len-N]; trailer == stream[len-N..]; len < N => Err and nothing forwarded
//@ stubs: alloc::fmt::format -> stub (only on the too-short error path, text unread)
c10_trailer!(c10_trailer_t2_w303, 2, 3, 0, 3);

//@ name: c10_trailer_t2_w310
//@ prop: C10
//@ tier: thorough
//@ clause: a verified trailer is stripped exactly: the destination sink receives all but the last 2 byte(s) of the stream, the trailer returned is exactly those last bytes, across arbitrary write sizes; a stream shorter than the trailer is an error and forwards nothing
//@ funcs: TrailerHold::new; TrailerHold::write; TrailerHold::flush; TrailerHold::into_trailer
//@ symbolic: all stream bytes
//@ bounds: trailer_len=2; three writes of 3, 1, 0 bytes (per-instance constants); unwind 12
//@ oracle: inner == stream[..len-N]; trailer == stream[len-N..]; len < N => Err and nothing forwarded
//@ stubs: alloc::fmt::format -> stub (only on the too-short error path, text unread)
c10_trailer!(c10_trailer_t2_w310, 2, 3, 1, 0);

//@ name: c10_trailer_t2_w313
//@ prop: C10
//@ tier: thorough
//@ clause: a verified trailer is stripped exactly: the destination sink receives all but the last 2 byte(s) of the stream, the trailer returned is exactly those last bytes, across arbitrary write sizes; a stream shorter than the trailer is an error and forwards nothing
//@ funcs: TrailerHold::new; TrailerHold::write; TrailerHold::flush; TrailerHold::into_trailer
//@ symbolic: all stream bytes
//@ bounds: trailer_len=2; three writes of 3, 1, 3 bytes (per-instance constants); unwind 12
//@ oracle: inner == stream[..len-N]; trailer == stream[len-N..]; len < N => Err and nothing forwarded
//@ stubs: alloc::fmt::format -> stub (only on the too-short error path, text unread)
c10_trailer!(c10_trailer_t2_w313, 2, 3, 1, 3);

//@ name: c10_trailer_t2_w330
//@ prop: C10
//@ tier: thorough
//@ clause: a verified trailer is stripped exactly: the destination sink receives all but the last 2 byte(s) of the stream, the trailer returned is exactly those last bytes, across arbitrary write sizes; a stream shorter than the trailer is an error and forwards nothing
//@ funcs: TrailerHold::new; TrailerHold::write; TrailerHold::flush; TrailerHold::into_trailer
//@ symbolic: all stream bytes
//@ bounds: trailer_len=2; three writes of 3, 3, 0 bytes (per-instance constants); unwind 12
//@ oracle: inner == stream[..len-N]; trailer == stream[len-N..]; len < N => Err and nothing forwarded
//@ stubs: alloc::fmt::format -> stub (only on the too-short error path, text unread)
c10_trailer!(c10_trailer_t2_w330, 2, 3, 3, 0);

//@ name: c10_trailer_t2_w331
//@ prop: C10
//@ tier: thorough
//@ clause: a verified trailer is stripped exactly: the destination sink receives all but the last 2 byte(s) of the stream, the trailer returned is exactly those last bytes, across arbitrary write sizes; a stream shorter than the trailer is an error and forwards nothing
//@ funcs: TrailerHold::new; TrailerHold::write; TrailerHold::flush; TrailerHold::into_trailer
//@ symbolic: all stream bytes
//@ bounds: trailer_len=2; three writes of 3, 3, 1 bytes (per-instance constants); unwind 12
//@ oracle: inner == stream[..len-N]; trailer == stream[len-N..]; len < N => Err and nothing forwarded
//@ stubs: alloc::fmt::format -> stub (only on the too-short error path, text unread)
c10_trailer!(c10_trailer_t2_w331, 2, 3, 3, 1);

//@ name: c10_trailer_t2_w333
//@ prop: C10
//@ tier: thorough
//@ clause: a verified trailer is stripped exactly: the destination sink receives all but the last 2 byte(s) of the stream, the trailer returned is exactly those last bytes, across arbitrary write sizes; a stream shorter than the trailer is an error and forwards nothing
//@ funcs: TrailerHold::new; TrailerHold::write; TrailerHold::flush; TrailerHold::into_trailer
//@ symbolic: all stream bytes
//@ bounds: trailer_len=2; three writes of 3, 3, 3 bytes (per-instance constants); unwind 12
//@ oracle: inner == stream[..len-N]; trailer == stream[len-N..]; len < N => Err and nothing forwarded
//@ stubs: alloc::fmt::format -> stub (only on the too-short error path, text unread)
c10_trailer!(c10_trailer_t2_w333, 2, 3, 3, 3);

//@ name: c10_trailer_t3_w000
//@ prop: C10
//@ tier: thorough
//@ clause: a verified trailer is stripped exactly: the destination sink receives all but the last 3 byte(s) of the stream, the trailer returned is exactly those last bytes, across arbitrary write sizes; a stream shorter than the trailer is an error and forwards nothing
//@ funcs: TrailerHold::new; TrailerHold::write; TrailerHold::flush; TrailerHold::into_trailer
//@ symbolic: all stream bytes
//@ bounds: trailer_len=3; three writes of 0, 0, 0 bytes (per-instance constants); unwind 12
//@ oracle: inner == stream[..len-N]; trailer == stream[len-N..]; len < N => Err and nothing forwarded
//@ stubs: alloc::fmt::format -> stub (only on the too-short error path, text unread)
c10_trailer!(c10_trailer_t3_w000, 3, 0, 0, 0);

//@ name: c10_trailer_t3_w001
//@ prop: C10
//@ tier: thorough
//@ clause: a verified trailer is stripped exactly: the destination sink receives all but the last 3 byte(s) of the stream, the trailer returned is exactly those last bytes, across arbitrary write sizes; a stream shorter than the trailer is an error and forwards nothing
//@ funcs: TrailerHold::new; TrailerHold::write; TrailerHold::flush; TrailerHold::into_trailer
//@ symbolic: all stream bytes
//@ bounds: trailer_len=3; three writes of 0, 0, 1 bytes (per-instance constants); unwind 12
//@ oracle: inner == stream[..len-N]; trailer == stream[len-N..]; len < N => Err and nothing forwarded
//@ stubs: alloc::fmt::format -> stub (only on the too-short error path, text unread)
c10_trailer!(c10_trailer_t3_w001, 3, 0, 0, 1);

//@ name: c10_trailer_t3_w003
//@ prop: C10
//@ tier: thorough
//@ clause: a verified trailer is stripped exactly: the destination sink receives all but the last 3 byte(s) of the stream, the trailer returned is exactly those last bytes, across arbitrary write sizes; a stream shorter than the trailer is an error and forwards nothing
//@ funcs: TrailerHold::new; TrailerHold::write; TrailerHold::flush; TrailerHold::into_trailer
//@ symbolic: all stream bytes
//@ bounds: trailer_len=3; three writes of 0, 0, 3 bytes (per-instance constants); unwind 12
//@ oracle: inner == stream[..len-N]; trailer == stream[len-N..]; len < N => Err and nothing forwarded
//@ stubs: alloc::fmt::format -> stub (only on the too-short error path, text unread)
c10_trailer!(c10_trailer_t3_w003, 3, 0, 0, 3);

//@ name: c10_trailer_t3_w010
//@ prop: C10
//@ tier: thorough
//@ clause: a verified trailer is stripped exactly: the destination sink receives all but the last 3 byte(s) of the stream, the trailer returned is exactly those last bytes, across arbitrary write sizes; a stream shorter than the trailer is an error and forwards nothing
//@ funcs: TrailerHold::new; TrailerHold::write; TrailerHold::flush; TrailerHold::into_trailer
//@ symbolic: all stream bytes
//@ bounds: trailer_len=3; three writes of 0, 1, 0 bytes (per-instance constants); unwind 12
//@ oracle: inner == stream[..len-N]; trailer == stream[len-N..]; len < N => Err and nothing forwarded
//@ stubs: alloc::fmt::format -> stub (only on the too-short error path, text unread)
c10_trailer!(c10_trailer_t3_w010, 3, 0, 1, 0);

//@ name: c10_trailer_t3_w011
//@ prop: C10
//@ tier: thorough
//@ clause: a verified trailer is stripped exactly: the destination sink receives all but the last 3 byte(s) of the stream, the trailer returned is exactly those last bytes, across arbitrary write sizes; a stream shorter than the trailer is an error and forwards nothing
//@ funcs: TrailerHold::new; TrailerHold::write; TrailerHold::flush; TrailerHold::into_trailer
//@ symbolic: all stream bytes
//@ bounds: trailer_len=3; three writes of 0, 1, 1 bytes (per-instance constants); unwind 12
//@ oracle: inner == stream[..len-N]; trailer == stream[len-N..]; len < N => Err and nothing forwarded
//@ stubs: alloc::fmt::format -> stub (only on the too-short error path, text unread)
c10_trailer!(c10_trailer_t3_w011, 3, 0, 1, 1);

//@ name: c10_trailer_t3_w013
//@ prop: C10
//@ tier: thorough
//@ clause: a verified trailer is stripped exactly: the destination sink receives all but the last 3 byte(s) of the stream, the trailer returned is exactly those last bytes, across arbitrary write sizes; a stream shorter than the trailer is an error and forwards nothing
//@ funcs: TrailerHold::new; TrailerHold::write; TrailerHold::flush; TrailerHold::into_trailer
//@ symbolic: all stream bytes
//@ bounds: trailer_len=3; three writes of 0, 1, 3 bytes (per-instance constants); unwind 12
//@ oracle: inner == stream[..len-N]; trailer == stream[len-N..]; len < N => Err and nothing forwarded
//@ stubs: alloc::fmt::format -> stub (only on the too-short error path, text unread)
c10_trailer!(c10_trailer_t3_w013, 3, 0, 1, 3);

//@ name: c10_trailer_t3_w030
//@ prop: C10
//@ tier: thorough
//@ clause: a verified trailer is stripped exactly: the destination sink receives all but the last 3 byte(s) of the stream, the trailer returned is exactly those last bytes, across arbitrary write sizes; a stream shorter than the trailer is an error and forwards nothing
//@ funcs: TrailerHold::new; TrailerHold::write; TrailerHold::flush; TrailerHold::into_trailer
//@ symbolic: all stream bytes
//@ bounds: trailer_len=3; three writes of 0, 3, 0 bytes (per-instance constants); unwind 12
//@ oracle: inner == stream[..len-N]; trailer == stream[len-N..]; len < N => Err and nothing forwarded
//@ stubs: alloc::fmt::format -> stub (only on the too-short error path, text unread)
c10_trailer!(c10_trailer_t3_w030, 3, 0, 3, 0);

//@ name: c10_trailer_t3_w031
//@ prop: C10
//@ tier: thorough
//@ clause: a verified trailer is stripped exactly: the destination sink receives all but the last 3 byte(s) of the stream, the trailer returned is exactly those last bytes, across arbitrary write sizes; a stream shorter than the trailer is an error and forwards nothing
//@ funcs: TrailerHold::new; TrailerHold::write; TrailerHold::flush; TrailerHold::into_trailer
//@ symbolic: all stream bytes
//@ bounds: trailer_len=3; three writes of 0, 3, 1 bytes (per-instance constants); unwind 12
//@ oracle: inner == stream[..len-N]; trailer == stream[len-N..]; len < N => Err and nothing forwarded
//@ stubs: alloc::fmt::format -> stub (only on the too-short error path, text unread)
c10_trailer!(c10_trailer_t3_w031, 3, 0, 3, 1);

//@ name: c10_trailer_t3_w033
//@ prop: C10
//@ tier: thorough
//@ clause: a verified trailer is stripped exactly: the destination sink receives all but the last 3 byte(s) of the stream, the trailer returned is exactly those last bytes, across arbitrary write sizes; a stream shorter than the trailer is an error and forwards nothing
//@ funcs: TrailerHold::new; TrailerHold::write; TrailerHold::flush; TrailerHold::into_trailer
//@ symbolic: all stream bytes
//@ bounds: trailer_len=3; three writes of 0, 3, 3 bytes (per-instance constants); unwind 12
//@ oracle: inner == stream[..len-N]; trailer == stream[len-N..]; len < N => Err and nothing forwarded
//@ stubs: alloc::fmt::format -> stub (only on the too-short error path, text unread)
c10_trailer!(c10_trailer_t3_w033, 3, 0, 3, 3);

//@ name: c10_trailer_t3_w100
//@ prop: C10
//@ tier: thorough
//@ clause: a verified trailer is stripped exactly: the destination sink receives all but the last 3 byte(s) of the stream, the trailer returned is exactly those last bytes, across arbitrary write sizes; a stream shorter than the trailer is an error and forwards nothing
//@ funcs: TrailerHold::new; TrailerHold::write; TrailerHold::flush; TrailerHold::into_trailer
//@ symbolic: all stream bytes
//@ bounds: trailer_len=3; three writes of 1, 0, 0 bytes (per-instance constants); unwind 12
//@ oracle: inner == stream[..len-N]; trailer == stream[len-N..]; len < N => Err and nothing forwarded
//@ stubs: alloc::fmt::format -> stub (only on the too-short error path, text unread)
c10_trailer!(c10_trailer_t3_w100, 3, 1, 0, 0);

//@ name: c10_trailer_t3_w101
//@ prop: C10
//@ tier: thorough
//@ clause: a verified trailer is stripped exactly: the destination sink receives all but the last 3 byte(s) of the stream, the trailer returned is exactly those last bytes, across arbitrary write sizes; a stream shorter than the trailer is an error and forwards nothing
//@ funcs: TrailerHold::new; TrailerHold::write; TrailerHold::flush; TrailerHold::into_trailer
//@ symbolic: all stream bytes
//@ bounds: trailer_len=3; three writes of 1, 0, 1 bytes (per-instance constants); unwind 12
//@ oracle: inner == stream[..len-N]; trailer == stream[len-N..]; len < N => Err and nothing forwarded
//@ stubs: alloc::fmt::format -> stub (only on the too-short error path, text unread)
c10_trailer!(c10_trailer_t3_w101, 3, 1, 0, 1);

//@ name: c10_trailer_t3_w103
//@ prop: C10
//@ tier: thorough
//@ clause: a verified trailer is stripped exactly: the destination sink receives all but the last 3 byte(s) of the stream, the trailer returned is exactly those last bytes, across arbitrary write sizes; a stream shorter than the trailer is an error and forwards nothing
//@ funcs: TrailerHold::new; TrailerHold::write; TrailerHold::flush; TrailerHold::into_trailer
//@ symbolic: all stream bytes
//@ bounds: trailer_len=3; three writes of 1, 0, 3 bytes (per-instance constants); unwind 12
//@ oracle: inner == stream[..len-N]; trailer == stream[len-N..]; len < N => Err and nothing forwarded
//@ stubs: alloc::fmt::format -> stub (only on the too-short error path, text unread)
c10_trailer!(c10_trailer_t3_w103, 3, 1, 0, 3);

//@ name: c10_trailer_t3_w111
//@ prop: C10
//@ tier: thorough
//@ clause: a verified trailer is stripped exactly: the destination sink receives all but the last 3 byte(s) of the stream, the trailer returned is exactly those last bytes, across arbitrary write sizes; a stream shorter than the trailer is an error and forwards nothing
//@ funcs: TrailerHold::new; TrailerHold::write; TrailerHold::flush; TrailerHold::into_trailer
//@ symbolic: all stream bytes
//@ bounds: trailer_len=3; three writes of 1, 1, 1 bytes (per-instance constants); unwind 12
//@ oracle: inner == stream[..len-N]; trailer == stream[len-N..]; len < N => Err and nothing forwarded
//@ stubs: alloc::fmt::format -> stub (only on the too-short error path, text unread)
c10_trailer!(c10_trailer_t3_w111, 3, 1, 1, 1);

//@ name: c10_trailer_t3_w113
//@ prop: C10
//@ tier: thorough
//@ clause: a verified trailer is stripped exactly: the destination sink receives all but the last 3 byte(s) of the stream, the trailer returned is exactly those last bytes, across arbitrary write sizes; a stream shorter than the trailer is an error and forwards nothing
//@ funcs: TrailerHold::new; TrailerHold::write; TrailerHold::flush; TrailerHold::into_trailer
//@ symbolic: all stream bytes
//@ bounds: trailer_len=3; three writes of 1, 1, 3 bytes (per-instance constants); unwind 12
//@ oracle: inner == stream[..len-N]; trailer == stream[len-N..]; len < N => Err and nothing forwarded
//@ stubs: alloc::fmt::format -> stub (only on the too-short error path, text unread)
c10_trailer!(c10_trailer_t3_w113, 3, 1, 1, 3);

//@ name: c10_trailer_t3_w130
//@ prop: C10
//@ tier: thorough
//@ clause: a verified trailer is stripped exactly: the destination sink receives all but the last 3 byte(s) of the stream, the trailer returned is exactly those last bytes, across arbitrary write sizes; a stream shorter than the trailer is an error and forwards nothing
//@ funcs: TrailerHold::new; TrailerHold::write; TrailerHold::flush; TrailerHold::into_trailer
//@ symbolic: all stream bytes
//@ bounds: trailer_len=3; three writes of 1, 3, 0 bytes (per-instance constants); unwind 12
//@ oracle: inner == stream[..len-N]; trailer == stream[len-N..]; len < N => Err and nothing forwarded
//@ stubs: alloc::fmt::format -> stub (only on the too-short error path, text unread)
c10_trailer!(c10_trailer_t3_w130, 3, 1, 3, 0);

//@ name: c10_trailer_t3_w131
//@ prop: C10
//@ tier: thorough
//@ clause: a verified trailer is stripped exactly: the destination sink receives all but the last 3 byte(s) of the stream, the trailer returned is exactly those last bytes, across arbitrary write sizes; a stream shorter than the trailer is an error and forwards nothing
//@ funcs: TrailerHold::new; TrailerHold::write; TrailerHold::flush; TrailerHold::into_trailer
//@ symbolic: all stream bytes
//@ bounds: trailer_len=3; three writes of 1, 3, 1 bytes (per-instance constants); unwind 12
//@ oracle: inner == stream[..len-N]; trailer == stream[len-N..]; len < N => Err and nothing forwarded
//@ stubs: alloc::fmt::format -> stub (only on the too-short error path, text unread)
c10_trailer!(c10_trailer_t3_w131, 3, 1, 3, 1);

//@ name: c10_trailer_t3_w133
//@ prop: C10
//@ tier: thorough
//@ clause: a verified trailer is stripped exactly: the destination sink receives all but the last 3 byte(s) of the stream, the trailer returned is exactly those last bytes, across arbitrary write sizes; a stream shorter than the trailer is an error and forwards nothing
//@ funcs: TrailerHold::new; TrailerHold::write; TrailerHold::flush; TrailerHold::into_trailer
//@ symbolic: all stream bytes
//@ bounds: trailer_len=3; three writes of 1, 3, 3 bytes (per-instance constants); unwind 12
//@ oracle: inner == stream[..len-N]; trailer == stream[len-N..]; len < N => Err and nothing forwarded
//@ stubs: alloc::fmt::format -> stub (only on the too-short error path, text unread)
c10_trailer!(c10_trailer_t3_w133, 3, 1, 3, 3);

//@ name: c10_trailer_t3_w300
//@ prop: C10
//@ tier: thorough
//@ clause: a verified trailer is stripped exactly: the destination sink receives all but the last 3 byte(s) of the stream, the trailer returned is exactly those last bytes, across arbitrary write sizes; a stream shorter than the trailer is an error and forwards nothing
//@ funcs: TrailerHold::new; TrailerHold::write; TrailerHold::flush; TrailerHold::into_trailer
//@ symbolic: all stream bytes
//@ bounds: trailer_len=3; three writes of 3, 0, 0 bytes (per-instance constants); unwind 12
//@ oracle: inner == stream[..len-N]; trailer == stream[len-N..]; len < N => Err and nothing forwarded
//@ stubs: alloc::fmt::format -> stub (only on the too-short error path, text unread)
c10_trailer!(c10_trailer_t3_w300, 3, 3, 0, 0);

//@ name: c10_trailer_t3_w301
//@ prop: C10
//@ tier: thorough
//@ clause: a verified trailer is stripped exactly: the destination sink receives all but the last 3 byte(s) of the stream, the trailer returned is exactly those last bytes, across arbitrary write sizes; a stream shorter than the trailer is an error and forwards nothing
//@ funcs: TrailerHold::new; TrailerHold::write; TrailerHold::flush; TrailerHold::into_trailer
//@ symbolic: all stream bytes
//@ bounds: trailer_len=3; three writes of 3, 0, 1 bytes (per-instance constants); unwind 12
//@ oracle: inner == stream[..len-N]; trailer == stream[len-N..]; len < N => Err and nothing forwarded
//@ stubs: alloc::fmt::format -> stub (only on the too-short error path, text unread)
c10_trailer!(c10_trailer_t3_w301, 3, 3, 0, 1);

//@ name: c10_trailer_t3_w303
//@ prop: C10
//@ tier: thorough
//@ clause: a verified trailer is stripped exactly: the destination sink receives all but the last 3 byte(s) of the stream, the trailer returned is exactly those last bytes, across arbitrary write sizes; a stream shorter than the trailer is an error and forwards nothing
//@ funcs: TrailerHold::new; TrailerHold::write; TrailerHold::flush; TrailerHold::into_trailer
//@ symbolic: all stream bytes
//@ bounds: trailer_len=3; three writes of 3, 0, 3 bytes (per-instance constants); unwind 12
//@ oracle: inner == stream[..len-N]; trailer == stream[len-N..]; len < N => Err and nothing forwarded
//@ stubs: alloc::fmt::format -> stub (only on the too-short error path, text unread)
c10_trailer!(c10_trailer_t3_w303, 3, 3, 0, 3);

//@ name: c10_trailer_t3_w310
//@ prop: C10
//@ tier: thorough
//@ clause: a verified trailer is stripped exactly: the destination sink receives all but the last 3 byte(s) of the stream, the trailer returned is exactly those last bytes, across arbitrary write sizes; a stream shorter than the trailer is an error and forwards nothing
//@ funcs: TrailerHold::new; TrailerHold::write; TrailerHold::flush; TrailerHold::into_trailer
//@ symbolic: all stream bytes
//@ bounds: trailer_len=3; three writes of 3, 1, 0 bytes (per-instance constants); unwind 12
//@ oracle: inner == stream[..len-N]; trailer == stream[len-N..]; len < N => Err and nothing forwarded
//@ stubs: alloc::fmt::format -> stub (only on the too-short error path, text unread)
c10_trailer!(c10_trailer_t3_w310, 3, 3, 1, 0);

//@ name: c10_trailer_t3_w311
//@ prop: C10
//@ tier: thorough
//@ clause: a verified trailer is stripped exactly: the destination sink receives all but the last 3 byte(s) of the stream, the trailer returned is exactly those last bytes, across arbitrary write sizes; a stream shorter than the trailer is an error and forwards nothing
//@ funcs: TrailerHold::new; TrailerHold::write; TrailerHold::flush; TrailerHold::into_trailer
//@ symbolic: all stream bytes
//@ bounds: trailer_len=3; three writes of 3, 1, 1 bytes (per-instance constants); unwind 12
//@ oracle: inner == stream[..len-N]; trailer == stream[len-N..]; len < N => Err and nothing forwarded
//@ stubs: alloc::fmt::format -> stub (only on the too-short error path, text unread)
c10_trailer!(c10_trailer_t3_w311, 3, 3, 1, 1);

//@ name: c10_trailer_t3_w313
//@ prop: C10
//@ tier: thorough
//@ clause: a verified trailer is stripped exactly: the destination sink receives all but the last 3 byte(s) of the stream, the trailer returned is exactly those last bytes, across arbitrary write sizes; a stream shorter than the trailer is an error and forwards nothing
//@ funcs: TrailerHold::new; TrailerHold::write; TrailerHold::flush; TrailerHold::into_trailer
//@ symbolic: all stream bytes
//@ bounds: trailer_len=3; three writes of 3, 1, 3 bytes (per-instance constants); unwind 12
//@ oracle: inner == stream[..len-N]; trailer == stream[len-N..]; len < N => Err and nothing forwarded
//@ stubs: alloc::fmt::format -> stub (only on the too-short error path, text unread)
c10_trailer!(c10_trailer_t3_w313, 3, 3, 1, 3);

//@ name: c10_trailer_t3_w330
//@ prop: C10
//@ tier: thorough
//@ clause: a verified trailer is stripped exactly: the destination sink receives all but the last 3 byte(s) of the stream, the trailer returned is exactly those last bytes, across arbitrary write sizes; a stream shorter than the trailer is an error and forwards nothing
//@ funcs: TrailerHold::new; TrailerHold::write; TrailerHold::flush; TrailerHold::into_trailer
//@ symbolic: all stream bytes
//@ bounds: trailer_len=3; three writes of 3, 3, 0 bytes (per-instance constants); unwind 12
//@ oracle: inner == stream[..len-N]; trailer == stream[len-N..]; len < N => Err and nothing forwarded
//@ stubs: alloc::fmt::format -> stub (only on the too-short error path, text unread)
c10_trailer!(c10_trailer_t3_w330, 3, 3, 3, 0);

//@ name: c10_trailer_t3_w331
//@ prop: C10
//@ tier: thorough
//@ clause: a verified trailer is stripped exactly: the destination sink receives all but the last 3 byte(s) of the stream, the trailer returned is exactly those last bytes, across arbitrary write sizes; a stream shorter than the trailer is an error and forwards nothing
//@ funcs: TrailerHold::new; TrailerHold::write; TrailerHold::flush; TrailerHold::into_trailer
//@ symbolic: all stream bytes
//@ bounds: trailer_len=3; three writes of 3, 3, 1 bytes (per-instance constants); unwind 12
//@ oracle: inner == stream[..len-N]; trailer == stream[len-N..]; len < N => Err and nothing forwarded
//@ stubs: alloc::fmt::format -> stub (only on the too-short error path, text unread)
c10_trailer!(c10_trailer_t3_w331, 3, 3, 3, 1);

//@ name: c10_trailer_t3_w333
//@ prop: C10
//@ tier: thorough
//@ clause: a verified trailer is stripped exactly: the destination sink receives all but the last 3 byte(s) of the stream, the trailer returned is exactly those last bytes, across arbitrary write sizes; a stream shorter than the trailer is an error and forwards nothing
//@ funcs: TrailerHold::new; TrailerHold::write; TrailerHold::flush; TrailerHold::into_trailer
//@ symbolic: all stream bytes
//@ bounds: trailer_len=3; three writes of 3, 3, 3 bytes (per-instance constants); unwind 12
//@ oracle: inner == stream[..len-N]; trailer == stream[len-N..]; len < N => Err and nothing forwarded
//@ stubs: alloc::fmt::format -> stub (only on the too-short error path, text unread)
c10_trailer!(c10_trailer_t3_w333, 3, 3, 3, 3);

// ---- Session::pull protocol over arbitrary producer message sequences ---------
/// msgs[i]: 0 = Chunk(1 byte), 1 = End, 2 = Fail. The producer contract (produce())
/// is: zero or more chunks, then exactly one End or Fail. A bare channel close
/// (no terminal marker) models a vanished producer and must surface as an error.
fn session_protocol<const K: usize>() {
    let kinds: [u8; K] = kani::any();
    let bytes: [u8; K] = kani::any();
    let (tx, rx) = sync_channel::<Msg>(1);
    // enqueue chunks up to and including the first terminal marker
    let mut n_chunks = 0usize;
    let mut terminal = 0u8; // 0 none (bare close), 1 End, 2 Fail
    // the producer may vanish after any number of messages, also before the first
    let len: usize = kani::any();
    kani::assume(len <= K);
    let mut i = 0;
    while i < len && terminal == 0 {
        kani::assume(kinds[i] <= 2);
        match kinds[i] {
            0 => {
                tx.send(Msg::Chunk(vec![bytes[i]])).unwrap();
                n_chunks += 1;
            }
            1 => {
                tx.send(Msg::End).unwrap();
                terminal = 1;
            }
            _ => {
                tx.send(Msg::Fail(String::new())).unwrap();
                terminal = 2;
            }
        }
        i += 1;
    }
    let mut s = Session { rx, lookahead: None, done: false };
    let mut pulled = 0usize;
    let mut lasts = 0usize;
    let mut errored = false;
    let mut p = 0;
    while p < K + 1 && lasts == 0 && !errored {
        match s.pull() {
            Ok((c, last)) => {
                if c.len() == 1 {
                    assert!(c[0] == bytes[pulled], "chunk lost, duplicated or reordered");
                    pulled += 1;
                } else {
                    assert!(c.is_empty() && last && n_chunks == 0, "an empty chunk that is not the sole final chunk");
                }
                if last {
                    lasts += 1;
                }
                std::mem::forget(c);
            }
            Err(e) => {
                errored = true;
                std::mem::forget(e);
            }
        }
        p += 1;
    }
    if terminal == 1 {
        assert!(lasts == 1 && !errored, "a clean production did not end with exactly one final chunk");
        assert!(pulled == n_chunks, "chunks lost before the end marker");
    } else {
        // producer failure (or vanished producer) at any point: an error, never an end marker
        assert!(errored && lasts == 0, "a failed production surfaced as an end marker");
    }
    kani::cover!(terminal == 2 && n_chunks == 0);
    kani::cover!(terminal == 2 && n_chunks == K - 1);
    kani::cover!(terminal == 1 && n_chunks == K - 1);
    kani::cover!(terminal == 0 && n_chunks == K);
    kani::cover!(terminal == 0 && n_chunks == 0);
    std::mem::forget(s);
    std::mem::forget(tx);
}

//@ prop: C09
//@ tier: quick
//@ clause: a producer failure at any point (before the first chunk, after k chunks) or a vanished producer surfaces as an error instead of an end marker; a clean end yields exactly one final chunk after all chunks, in order
//@ funcs: Session::pull; Session::recv
//@ symbolic: the producer's message sequence (each of 3 slots: chunk / End / Fail, cut at the first terminal marker), chunk bytes
//@ bounds: <= 3 messages (0..2 chunks before the terminal marker, or 0..3 chunks and no marker at all: the producer vanished, possibly before its first message); unwind 8
//@ oracle: statement clauses over the enqueued sequence
//@ stubs: mpsc::SyncSender::send / Receiver::recv -> in-memory FIFO
#[kani::proof]
#[kani::stub(std::sync::mpsc::SyncSender::send, send_stub)]
#[kani::stub(std::sync::mpsc::Receiver::recv, recv_stub)]
#[kani::unwind(8)]
fn c09_session_pull_protocol_3() {
    session_protocol::<3>();
}

// ===========================================================================
// C10: the TempFile guard (publish by rename, or remove) under filesystem stubs.
// Each filesystem operation is replaced by a stub that appends (operation, path
// role) to a trace and succeeds or fails as the harness chose; the oracle is a
// predicate over the trace = the on-disk effect at every crash point between
// operations. (The surrounding write_file could not be brought in: see DESIGN §2.)
// ===========================================================================
const TMP_BYTES: &[u8] = b"d/f.svspart";
const FINAL_BYTES: &[u8] = b"d/f";
const OP_CREATE_TMP: u8 = 1;
const OP_RENAME_TMP_TO_FINAL: u8 = 3;
const OP_REMOVE_TMP: u8 = 4;
const OP_TOUCH_FINAL: u8 = 6; // any create/remove/rename-from naming the destination
const OP_OTHER: u8 = 7;
static mut FS_TRACE: [u8; 8] = [0; 8];
static mut FS_N: usize = 0;
static mut FAIL_CREATE: bool = false;
static mut FAIL_RENAME: bool = false;

fn fs_log(op: u8) {
    unsafe {
        kani::assume(FS_N < 8);
        FS_TRACE[FS_N] = op;
        FS_N += 1;
    }
}
fn role(p: &Path) -> u8 {
    let b = p.as_os_str().as_encoded_bytes();
    if bytes_eq(b, TMP_BYTES) {
        1
    } else if bytes_eq(b, FINAL_BYTES) {
        2
    } else {
        0
    }
}
fn file_create_stub<P: AsRef<Path>>(p: P) -> io::Result<std::fs::File> {
    use std::os::fd::FromRawFd;
    match role(p.as_ref()) {
        1 => fs_log(OP_CREATE_TMP),
        2 => fs_log(OP_TOUCH_FINAL),
        _ => fs_log(OP_OTHER),
    }
    if unsafe { FAIL_CREATE } {
        Err(io::Error::from(io::ErrorKind::PermissionDenied))
    } else {
        if role(p.as_ref()) == 1 {
            unsafe {
                TMP_EXISTS = true;
            }
        }
        Ok(unsafe { std::fs::File::from_raw_fd(77) })
    }
}
fn rename_stub<P: AsRef<Path>, Q: AsRef<Path>>(from: P, to: Q) -> io::Result<()> {
    if role(from.as_ref()) == 1 && role(to.as_ref()) == 2 {
        fs_log(OP_RENAME_TMP_TO_FINAL);
    } else if role(from.as_ref()) == 2 || role(to.as_ref()) == 2 {
        fs_log(OP_TOUCH_FINAL);
    } else {
        fs_log(OP_OTHER);
    }
    if unsafe { FAIL_RENAME } {
        Err(io::Error::from(io::ErrorKind::PermissionDenied))
    } else {
        if role(from.as_ref()) == 1 {
            unsafe {
                TMP_EXISTS = false;
            }
        }
        Ok(())
    }
}
fn remove_file_stub<P: AsRef<Path>>(p: P) -> io::Result<()> {
    match role(p.as_ref()) {
        1 => fs_log(OP_REMOVE_TMP),
        2 => fs_log(OP_TOUCH_FINAL),
        _ => fs_log(OP_OTHER),
    }
    if role(p.as_ref()) == 1 {
        unsafe {
            TMP_EXISTS = false;
        }
    }
    Ok(())
}
fn owned_fd_drop_stub(_fd: &mut std::os::fd::OwnedFd) {}

static mut DEST_EXISTS: bool = false;
static mut TMP_EXISTS: bool = false;
/// `fs::metadata` (behind Path::exists / is_file / is_dir): reading is harmless, so
/// nothing is logged; the destination either does not exist or is a regular file,
/// as the harness chose (destination pre-existing or absent), and the temporary
/// file is a regular file from its creation until it is renamed or removed. The
/// Metadata value is a stat buffer whose st_mode reads S_IFREG; both files report
/// the same length (the case "new content has the size of the old").
fn metadata_stub<P: AsRef<Path>>(p: P) -> io::Result<std::fs::Metadata> {
    if (role(p.as_ref()) == 2 && unsafe { DEST_EXISTS }) || (role(p.as_ref()) == 1 && unsafe { TMP_EXISTS }) {
        // every 32-bit word = S_IFREG (0o100000): wherever the compiler placed st_mode,
        // file_type() reads "regular file"; no other field is consulted by is_file/exists
        let mut raw = [0u8; std::mem::size_of::<std::fs::Metadata>()];
        let mut k = 1;
        while k < raw.len() {
            raw[k] = 0x80;
            k += 4;
        }
        Ok(unsafe { std::mem::transmute::<[u8; std::mem::size_of::<std::fs::Metadata>()], std::fs::Metadata>(raw) })
    } else {
        Err(io::Error::from(io::ErrorKind::NotFound))
    }
}

//@ name: c10_tempfile_guard_protocol
//@ prop: C10
//@ tier: quick
//@ clause: the temporary file is either published by exactly one rename(temp -> destination) or removed: dropping the guard without commit removes it, a failed rename removes it and reports the error, a successful commit leaves nothing to remove, and no operation other than the publishing rename ever names the destination path (so the destination is left exactly as it was on every failing path)
//@ funcs: TempFile::create; TempFile::commit; TempFile::drop; TempFile::file_mut
//@ symbolic: whether creation fails, whether the guard is committed or dropped (= the pull failed), whether the rename fails, whether the destination already exists
//@ bounds: one guard; paths concrete ("d/f", "d/f.svspart")
//@ oracle: predicate over the trace of filesystem operations
//@ stubs: File::create / fs::rename / fs::remove_file -> trace + chosen outcome; fs::metadata -> destination absent or a regular file as chosen, the temporary file a regular file of the same length while it exists; OwnedFd::drop -> no-op (no real descriptor)
#[kani::proof]
#[kani::stub(std::fs::File::create, file_create_stub)]
#[kani::stub(std::fs::rename, rename_stub)]
#[kani::stub(std::fs::remove_file, remove_file_stub)]
#[kani::stub(std::fs::metadata, metadata_stub)]
#[kani::stub(<std::os::fd::OwnedFd as std::ops::Drop>::drop, owned_fd_drop_stub)]
#[kani::unwind(70)]
fn c10_tempfile_guard_protocol() {
    unsafe {
        FAIL_CREATE = kani::any();
        FAIL_RENAME = kani::any();
        DEST_EXISTS = kani::any(); // destination pre-existing or absent
    }
    let commit: bool = kani::any();
    let tmp = Path::new("d/f.svspart");
    let fin = Path::new("d/f");
    let created = TempFile::create(tmp);
    let (fc, fr) = unsafe { (FAIL_CREATE, FAIL_RENAME) };
    let mut committed_ok = false;
    match created {
        Err(e) => {
            assert!(fc);
            std::mem::forget(e);
        }
        Ok(mut guard) => {
            assert!(!fc);
            let _f = guard.file_mut();
            if commit {
                let r = guard.commit(fin);
                committed_ok = r.is_ok();
                assert!(committed_ok == !fr, "commit result does not reflect the rename");
                std::mem::forget(r);
            } else {
                drop(guard);
            }
        }
    }
    let n = unsafe { FS_N };
    let mut renames = 0usize;
    let mut removes = 0usize;
    let mut removes_after_rename = 0usize;
    let mut i = 0;
    while i < n {
        let op = unsafe { FS_TRACE[i] };
        assert!(op != OP_TOUCH_FINAL, "an operation other than the publishing rename named the destination path");
        assert!(op != OP_OTHER, "an operation on an unexpected path");
        if op == OP_RENAME_TMP_TO_FINAL {
            renames += 1;
        }
        if op == OP_REMOVE_TMP {
            removes += 1;
            if renames > 0 {
                removes_after_rename += 1;
            }
        }
        i += 1;
    }
    assert!(renames == (!fc && commit) as usize, "publish attempted without commit, or not attempted on commit");
    if committed_ok {
        assert!(removes == 0, "the published file's temp name was removed after a successful rename");
    } else if !fc {
        assert!(removes == 1, "an uncommitted or failed guard left its temporary file behind (or removed it twice)");
        let _ = removes_after_rename;
    } else {
        assert!(removes == 0 && renames == 0);
    }
    kani::cover!(committed_ok);
    kani::cover!(!fc && commit && fr);
    kani::cover!(!fc && !commit);
}


// ---- produce(): always ends with exactly one End or Fail ---------------------------
fn io_error_display_stub(_e: &io::Error, _f: &mut std::fmt::Formatter<'_>) -> std::fmt::Result {
    Ok(())
}

/// The real producer engine run to completion over the FIFO, then pulled to the end.
/// N payload bytes, chunk size CB, written as W1 + rest; FAIL: the body writer
/// returns an error after its W1-byte first write (producer failure mid-stream; those
/// instances did not finish under CBMC - dropping the io::Error inside produce() drags
/// in its pointer-tagged representation - and are not instantiated; failure semantics
/// are decided at the Session level by c09_session_pull_protocol_3).
fn produce_then_pull<const N: usize, const CB: usize, const W1: usize, const FAIL: bool>() {
    let payload: [u8; N] = kani::any();
    let (tx, rx) = sync_channel::<Msg>(1);
    let opts = StreamOpts { chunk_bytes: CB, compression: Compression::None, zstd_level: 3, session_depth: 1 };
    let body: BodyWriter = Box::new(move |w: &mut dyn Write| {
        w.write_all(&payload[..W1])?;
        if FAIL {
            return Err(io::Error::from(io::ErrorKind::Other));
        }
        if W1 < N {
            w.write_all(&payload[W1..])?;
        }
        Ok(())
    });
    produce(body, tx, opts);

    let mut s = Session { rx, lookahead: None, done: false };
    let mut got = [0u8; 8];
    let mut n = 0usize;
    let mut lasts = 0usize;
    let mut errored = false;
    let mut pulls = 0usize;
    while pulls < 8 && lasts == 0 && !errored {
        let r = s.pull();
        match &r {
            Ok((chunk, last)) => {
                let mut i = 0;
                while i < chunk.len() {
                    got[n] = chunk[i];
                    n += 1;
                    i += 1;
                }
                if *last {
                    lasts += 1;
                }
            }
            Err(_) => errored = true,
        }
        std::mem::forget(r);
        pulls += 1;
    }
    if FAIL {
        assert!(errored && lasts == 0, "a failed production surfaced as an end marker");
        // what was delivered before the failure is a prefix of what was written
        assert!(n <= W1, "bytes delivered that the failed producer never flushed");
    } else {
        assert!(!errored && lasts == 1, "a clean production did not end with exactly one final chunk");
        assert!(n == N, "pulled byte count differs from the produced byte count");
    }
    let mut k = 0;
    while k < n {
        assert!(got[k] == payload[k], "pulled bytes differ from the produced bytes");
        k += 1;
    }
    std::mem::forget(s);
}

macro_rules! c09_produce {
    ($name:ident, $n:expr, $cb:expr, $w1:expr, $fail:expr) => {
        #[kani::proof]
        #[kani::stub(std::sync::mpsc::SyncSender::send, send_stub)]
        #[kani::stub(std::sync::mpsc::Receiver::recv, recv_stub)]
        #[kani::stub(<std::io::Error as std::fmt::Display>::fmt, io_error_display_stub)]
        #[kani::stub(std::fmt::format, crate::verif_common::format_stub)]
        #[kani::unwind(10)]
        fn $name() {
            produce_then_pull::<$n, $cb, $w1, $fail>();
        }
    };
}

//@ name: c09_produce_n4_cb2_w3_ok
//@ prop: C09
//@ tier: quick
//@ clause: the producer engine ends a clean production with exactly one End: pulled bytes equal the produced bytes with exactly one final chunk
//@ funcs: value_stream::produce (Compression::None arm); ChunkSink::new; ChunkSink::write; ChunkSink::flush_remaining; Session::pull; Session::recv
//@ symbolic: all payload bytes
//@ bounds: payload 4 bytes, chunk size 2, body writer writes 3 byte(s) then the rest (per-instance constants); uncompressed; channel = FIFO contract, producer run to completion first; unwind 10
//@ oracle: statement clauses; byte-for-byte comparison with the payload
//@ stubs: mpsc::SyncSender::send / Receiver::recv -> in-memory FIFO; <io::Error as Display>::fmt -> writes nothing (the failure text is not the subject); alloc::fmt::format -> stub
c09_produce!(c09_produce_n4_cb2_w3_ok, 4, 2, 3, false);



