use super::*;
