use super::*;
